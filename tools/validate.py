#!/usr/bin/env python3
"""Validate MANIFEST.json and evidence/*.json against the schemas in /root/.vp (python3-vt has jsonschema)."""
import json, sys, glob
import jsonschema
ok = True
def v(path, schema):
    global ok
    try:
        jsonschema.validate(json.load(open(path)), json.load(open(schema)))
        print("valid  ", path)
    except Exception as e:
        ok = False
        print("INVALID", path, str(e).splitlines()[0])
v('/verif/MANIFEST.json', '/root/.vp/MANIFEST.schema.json')
for f in sorted(glob.glob('/verif/evidence/*.json')):
    v(f, '/root/.vp/EVIDENCE.schema.json')
sys.exit(0 if ok else 1)

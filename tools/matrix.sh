#!/bin/bash
# tools/matrix.sh <out-file> <seeded-id>... : for each seeded change, apply it to a scratch worktree and run ALL quick checks
# against that tree (VERIF_REPO), writing one line per (seeded id, property). Does not touch /repo or /verif/evidence.
mkdir -p /tmp/wt
OUT="$1"; shift
# VERIF_SNAP=<dir>: run the checks from a snapshot copy of /verif (harness under edit does not disturb a long matrix run)
V="${VERIF_SNAP:-/verif}"
export GOFLAGS=-mod=mod GOPROXY=off GOSUMDB=off GOTOOLCHAIN=local
for SID in "$@"; do
  WT=/tmp/wt/mx-$SID
  git -C /repo worktree remove --force "$WT" >/dev/null 2>&1
  git -C /repo worktree add -q --detach "$WT" HEAD || continue
  if ! git -C "$WT" apply /verif/seeded/$SID/patch.diff; then echo "$SID APPLY-FAILED" >> "$OUT"; git -C /repo worktree remove --force "$WT"; continue; fi
  for P in ${PROPS:-C01 C02 C03 C04 C05 C06 C07 C08 C09 C10 C11 C12 C13 C14 C15 C16 C17 C18 C19}; do
    o=$(cd "$V" && VERIF_REPO="$WT" VERIF_OUT_DIR=/tmp/wt/mxout-$SID ./check $P --tier ${TIER:-quick} 2>&1)
    rc=$?
    why=""
    [ $rc -ne 0 ] && [ $rc -ne 1 ] && why=" $(echo "$o" | grep -m1 -E 'INCONCLUSIVE|reason|inconclusive' | cut -c1-300)"
    echo "$SID $P rc=$rc $(echo "$o" | grep -m1 'signature:' | cut -c1-160)$why" >> "$OUT"
  done
  git -C /repo worktree remove --force "$WT" >/dev/null 2>&1
  rm -rf /tmp/wt/mxout-$SID "$V"/.build/*$(echo "$WT" | md5sum | cut -c1-8)*
done
echo DONE >> "$OUT"

#!/usr/bin/env python3
"""Prints section 14 of DESIGN.md (seeded changes and which checks catch them) from /verif/seeded/*/meta.json."""
import json, glob, os
rows=[]
for f in sorted(glob.glob('/verif/seeded/*/meta.json')):
    m=json.load(open(f))
    caught=list(m['caught_by'].keys())
    own=m['breaks_property']
    first=m['caught_by'].get(own) or (next(iter(m['caught_by'].values())) if caught else '')
    kind=first.replace('signature:','').strip().split(' ')[0] if first else ''
    rows.append((m['id'],own,m['needs_to_manifest'],', '.join(caught) or '-', kind, 'yes' if m['own_property_check_catches'] else 'no'))
print('| seeded change | property | what it needs in order to manifest | quick checks that report it | first violation kind (own check) | own check catches |')
print('|---|---|---|---|---|---|')
for r in rows:
    print('| `%s` | %s | %s | %s | `%s` | %s |' % r)
print()
print('%d seeded changes; %d caught by the check of the property they were written against; the rest are caught by another check (see notes).' % (len(rows), sum(1 for r in rows if r[5]=='yes')))

#!/bin/bash
# tools/selfcheck.sh [all] : detection-power regression of the machinery itself. For every seeded change under /verif/seeded
# (default: one or two representative ones per property; `all`: every one) the check of the property it was written against
# (or the check named in meta.json when that one cannot see it) is run against a scratch worktree with the change applied;
# it must report a VIOLATION. Prints one line per change and a summary; exit 1 if any change goes unnoticed.
mkdir -p /tmp/wt
export GOFLAGS=-mod=mod GOPROXY=off GOSUMDB=off GOTOOLCHAIN=local
V="${VERIF_SNAP:-/verif}"   # VERIF_SNAP=<dir>: run the checks from a snapshot copy of /verif
cd "$V"
# `ids <id>...`: just these (used to spread `all` over several parallel streams)
if [ "${1:-}" = ids ]; then shift; IDS="$*"; elif [ "${1:-}" = all ]; then IDS=$(ls seeded | grep '^c'); else IDS="c01-m5 c02-m5 c03-m6 c04-m6 c05-m4 c06-m5 c07-m5 c08-m6 c09-m5 c10-m5 c11-m5 c12-m6 c13-m5 c14-m6 c15-m5 c16-m5 c17-m5 c18-m5 c19-m5 c02-m7 c03-m8 c04-m7 c05-m7 c07-m7 c07-m9 c07-m10 c08-m8 c10-m8 c11-m9 c14-m9 c15-m9 c16-m8 c17-m7 c17-m8"; fi
miss=0; n=0
for SID in $IDS; do
  [ -f seeded/$SID/meta.json ] || continue
  P=$(python3 -c "import json;m=json.load(open('seeded/$SID/meta.json'));c=list(m['caught_by']);p=m['breaks_property'];print(p if (p in c or not c) else c[0])")
  WT=/tmp/wt/sc-$SID
  git -C /repo worktree remove --force "$WT" >/dev/null 2>&1
  git -C /repo worktree add -q --detach "$WT" HEAD || continue
  if ! git -C "$WT" apply "$V"/seeded/$SID/patch.diff 2>/dev/null; then echo "$SID: patch no longer applies to /repo HEAD"; git -C /repo worktree remove --force "$WT"; continue; fi
  T=$(python3 -c "import json;print(json.load(open('seeded/$SID/meta.json')).get('check_tier','quick'))")
  [ "$T" = thorough ] && P=$(python3 -c "import json;print(list(json.load(open('seeded/$SID/meta.json'))['caught_by_thorough_only'])[0])")
  o=$(VERIF_REPO="$WT" VERIF_OUT_DIR=/tmp/wt/scout-$SID ./check $P --tier $T 2>&1); rc=$?
  n=$((n+1))
  if [ $rc = 1 ]; then echo "$SID: caught by $P :: $(echo "$o" | grep -m1 'signature:' | cut -c1-120)"; else echo "$SID: NOT CAUGHT by $P (rc=$rc)"; miss=$((miss+1)); fi
  git -C /repo worktree remove --force "$WT" >/dev/null 2>&1
  rm -rf /tmp/wt/scout-$SID "$V"/.build/*$(echo "$WT" | md5sum | cut -c1-8)*
done
echo "selfcheck: $n seeded changes run, $miss not caught"
[ $miss = 0 ]

#!/bin/bash
# tools/sweep.sh <out-file> <tier> <seed>... : runs every check at the given seeds, one line per run. Evidence goes to a scratch dir.
mkdir -p /tmp/wt
OUT="$1"; TIER="$2"; shift 2
for S in "$@"; do
  for P in ${PROPS:-C01 C02 C03 C04 C05 C06 C07 C08 C09 C10 C11 C12 C13 C14 C15 C16 C17 C18 C19}; do
    s=$(date +%s)
    o=$(cd /verif && VERIF_SEED=$S VERIF_OUT_DIR=/tmp/wt/sweepout-$$ ./check $P --tier $TIER 2>&1)
    rc=$?
    echo "seed=$S $P rc=$rc $(( $(date +%s)-s ))s $(echo "$o" | grep -m1 'signature:\|INCONCLUSIVE' | cut -c1-200)" >> "$OUT"
  done
done
rm -rf /tmp/wt/sweepout-$$
echo DONE >> "$OUT"

#!/bin/bash
# tools/verify_seeded.sh <src-dir-with-patch.diff-and-demo> <seed-id> <property> [patch-override]
# Confirms a seeded change in a scratch worktree of /repo's HEAD: patch applies, suite passes with it, demo fails with it and passes without.
# On success copies patch.diff, the demo and notes into /verif/seeded/<seed-id>/ and writes meta.json (without the check results).
set -u
mkdir -p /tmp/wt
SRC="$1"; ID="$2"; PROP="$3"; PATCH="${4:-$SRC/patch.diff}"
export GOFLAGS=-mod=mod GOPROXY=off GOSUMDB=off GOTOOLCHAIN=local
WT=/tmp/wt/verify-$$
git -C /repo worktree add -q --detach "$WT" HEAD || exit 2
trap 'git -C /repo worktree remove --force "$WT" >/dev/null 2>&1' EXIT
DEMO=$(ls "$SRC"/*_test.go | head -1)
PKG=$(grep -m1 '^package ' "$DEMO" | awk '{print $2}')
case "$PKG" in packet|packet_test) DIR=packet;; server|server_test) DIR=server;; *) DIR=.;; esac
cd "$WT"
cp "$DEMO" "$DIR/"
if ! go test -mod=mod -vet=off -count=1 ./$DIR/ >/tmp/wt/v_clean.log 2>&1; then echo "$ID: DEMO FAILS ON CLEAN TREE"; tail -5 /tmp/wt/v_clean.log; exit 1; fi
rm "$DIR/$(basename "$DEMO")"
if ! git apply "$PATCH" 2>/dev/null; then echo "$ID: PATCH DOES NOT APPLY"; exit 1; fi
if ! go test -mod=mod -vet=off -count=1 ./... >/tmp/wt/v_suite.log 2>&1; then echo "$ID: SUITE FAILS WITH PATCH"; tail -5 /tmp/wt/v_suite.log; exit 1; fi
cp "$DEMO" "$DIR/"
if go test -mod=mod -vet=off -count=1 ./$DIR/ >/tmp/wt/v_demo.log 2>&1; then echo "$ID: DEMO PASSES WITH PATCH (not a break)"; exit 1; fi
mkdir -p /verif/seeded/$ID
cp "$PATCH" /verif/seeded/$ID/patch.diff
cp "$DEMO" /verif/seeded/$ID/
[ -f "$SRC/notes.md" ] && cp "$SRC/notes.md" /verif/seeded/$ID/notes.md
echo "$ID: CONFIRMED (demo dir: $DIR, demo: $(basename $DEMO))"
echo "$DIR" > /verif/seeded/$ID/.demo_dir

#!/bin/bash
# tools/drill.sh <patch.diff> <ID> [<ID>...]  : apply a seeded change to /repo, run the quick checks, undo it.
# Env: TIER=thorough for the thorough tier. Never leaves /repo modified.
P="$1"; shift
if ! git -C /repo diff --quiet; then echo "/repo has local modifications; refusing"; exit 2; fi
if ! git -C /repo apply "$P" 2>/dev/null; then
  if ! git -C /repo apply --3way "$P" >/dev/null 2>&1; then echo "PATCH DOES NOT APPLY: $P"; git -C /repo reset -q --hard HEAD; exit 3; fi
  git -C /repo reset -q
fi
for id in "$@"; do
  out=$(cd /verif && VERIF_SEED=${VERIF_SEED:-1} ./check "$id" --tier "${TIER:-quick}" 2>&1)
  rc=$?
  nv=$(echo "$out" | grep -c '^VIOLATION')
  echo "== $id rc=$rc violations=$nv :: $(echo "$out" | grep -m1 'signature:' | cut -c1-220)"
  [ $rc = 2 ] && echo "$out" | grep INCONCLUSIVE | head -3
done
git -C /repo reset -q --hard HEAD
git -C /repo status --short | grep -v '^??' | head -3
rm -rf /verif/replays/*

#!/usr/bin/env python3
"""Regenerates /verif/MANIFEST.json from the table below (kept in one place so that texts stay consistent)."""
import json, subprocess, os
hook_commits = [l.split()[0] for l in subprocess.run(['git','-C','/repo','log','--format=%h %s'],capture_output=True,text=True).stdout.splitlines() if ' verif hook' in l or l.split(' ',1)[1].startswith('hook:')]
P = {
 'C01': ('exploration', 'reference-model monitor over enumerated constructor calls',
   'Every constructor call over the whole quantity / payload-length axes is observed and each accepted request compared byte for byte with an independent encoder of the specification plus its limits; exhaustive on the quantity axes, sampled on address/unit/tid/payload.',
   'specref encoder (validated against the specification\'s worked examples); rejection by a constructor is always allowed'),
 'C02': ('exploration', 'reference-model monitor over generated response frames',
   'Reference-encoded responses for every byte count / quantity are parsed by dispatchers and per-function parsers; decoded fields, Bytes() round trip, the full 128x256 exception cube and byte-count/length mismatch mutants are decided against the reference decoder.',
   'specref; FC17 layout as documented by the library'),
 'C03': ('exploration', 'exhaustive transition sweep of CRC16 against a bit-serial reference + trailer sweeps',
   'All 2^24 messages of length <=3 (every state x byte transition of the fold, executed through the real function), PRNG long messages with split/continue, every emitted RTU trailer, and all 65536 trailer values on accepted frames for the WithCRC parsers.',
   'bit-serial reference CRC (different algorithm shape) validated on 4 published vectors'),
 'C04': ('exploration', 'reference-model monitor over accessor calls with poisoned backing arrays',
   'Every accessor variant x documented order is called at window edges, wrap distances and (thorough) all 65536 addresses; in-window results must equal the reference decoder, out-of-window calls must error; three differently poisoned backing arrays expose reads behind the payload.',
   'regref decoder; seven documented byte orders only'),
 'C05': ('exploration', 'end-to-end differential against a simulated device',
   'Builder requests are answered by a spec-conforming simulated device whose memory identifies (server, unit, table, address); extracted values, exactly-once reporting, cross-talk and strict/lenient behaviour on truncated replies are decided per field.',
   'simdev + specref + regref'),
 'C06': ('exploration', 'small-scope exhaustive + random invariant monitor on the batcher output',
   'All multisets of <=2 (quick) / <=3 (thorough) fields over a boundary address lattice and PRNG lists are fed to the eight builder targets; the nine structural clauses of the property are checked in integer arithmetic on every non-error outcome.',
   'documented register size per field type; errors are always permitted'),
 'C07': ('exploration', 'scripted-transport schedule enumeration with transport-log oracle',
   'Every single cut position (and pairs, byte-wise, random) x timed-out reads for every client kind / function / reply size; verdicts are taken from the returned value and the transport log (bytes handed over, reads after completion), not from the clock.',
   'scripted transport never blocks; exposes the 11 wrong ExpectedResponseLength formulas as known findings'),
 'C08': ('fault_enumeration', 'fault injection at every reply prefix in a scripted transport',
   'Prefix x {stall, EOF, I/O error, flood, cancel, write error} plus unconnected/nil/flush-error and two-call sequences on one client; error class, nil response, logical step bounds and a watchdog with a second wait decide termination and classification.',
   'short client read timeouts only bound the run; classification for EOF not demanded'),
 'C09': ('exploration', 'encode -> parse round-trip monitor over the legal and illegal quantity axes',
   'Whole legal quantity axis per function through every request parser entry point (DeepEqual + re-encode), whole illegal axis (0, >limit .. 65535, all FC5 values) must be refused.',
   'legality per specref'),
 'C10': ('exploration', 'recover()/differential monitor over all parse entry points',
   'All parse entry points (census checked at run time) on header-consistent frames of every function code and length 0..300, prefixes/mutations of valid frames, small exhaustive strings and PRNG strings, each presented with three different spare capacities; no panic, identical results, nil value on error.',
   'over-reads are only visible through differing results between presentations'),
 'C11': ('exploration', 'reference-model monitor + write/read-back through a simulated device',
   'Every in-range and out-of-range lookup for every payload length 1..250, CoilsToBytes for every length, write->device->read-back and builder coil extraction; the pinned byte-reversed lookup is classified separately from any other wrong bit.',
   'specref coil layout'),
 'C12': ('fault_enumeration', 'corruption enumeration through RTU clients on a scripted transport',
   'Every bit flip, byte substitution, truncation, extension and selected multi-byte corruptions (swapped / foreign CRC) of every reply shape, delivered whole, cut at 5 and at a PRNG cut: never data, never a device exception.',
   'precondition (trailer != CRC of consumed bytes) checked per case'),
 'C13': ('exploration', 'history monitor: buffer snapshots + alone-on-fresh-copy baseline, concurrent readers under the race detector',
   'All ordered pairs of accessor variants and PRNG histories on one view, ExtractFields repeated/permuted/strict/lenient and Field.ExtractFrom on a shared Registers; the frame buffer is compared after every call and every result with the same call made alone on a freshly parsed copy; eight goroutines reading one view concurrently (built with -race) expose temporary in-place rearrangement.',
   'baseline is the library itself on a fresh copy (interference, not decoding correctness)'),
 'C14': ('exploration', 'race detector + wire-level overlap detector + reply matching + porcupine linearizability check of recorded histories',
   'N goroutines share one client against a harness device with PRNG delays; the transport detects a request written while another caller\'s reply is outstanding or a garbled frame, every caller verifies its own unique reply (again after later calls), a FC6/FC3 register history is checked with porcupine, Close/Connect and cancelled callers run concurrently; built with -race, cases run in child processes so that runtime-fatal errors identify their case.',
   'mutual exclusion is observed at the transport boundary; schedules are sampled (PRNG delays), not enumerated'),
 'C15': ('exploration', 'exhaustive segmentation enumeration of the assembler + in-memory end-to-end server runs',
   'Layer A feeds ALL 2^(n-1) segmentations of every short request (and all single/double cuts and PRNG cuts of streams of up to 6 requests) through ModbusTCPAssembler and compares the cumulative output after every feed with the reply stream of whole-frame feeding and with the device reference; layer B repeats lock-step and pipelined streams through server.Server over net.Pipe connections under -race; hostile payloads (write data that is itself a valid frame, with a hesitating client) and unsupported-function frames inside streams; a loopback ListenAndServe layer cross-checks the in-memory transport.',
   'simdev reference replies; net.Pipe makes one client write exactly one server read'),
 'C16': ('fault_enumeration', 'frame-class x handler-mode enumeration through assembler and real server, child processes',
   'Valid, unsupported, out-of-range, truncated and inconsistent frames x handlers returning a response / typed error / generic error / panicking (string, error, runtime error); every reply is decoded by the reference decoder and matched to its request (k-th reply to k-th request, also in pipelined streams); panics must only cost their own connection: control connection and process stay alive.',
   'exception codes only constrained where the property names them (01, 03)'),
 'C17': ('exploration', 'race detector + history monitors (accounting interval oracle, exactly-once callbacks, in-flight reply conservation, state-witness for Serve return) with verif yield hooks',
   'All 16 callback combinations x PRNG client schedules x terminal actions x delays at four verif-tagged yield points, each case in a child process under -race; events from callbacks, handler, recording connections and the terminal action share one logical clock and are checked offline; Shutdown overlapping the start of Serve and real-TCP ListenAndServe cases (port refuses connections afterwards) are included.',
   'hooks: server/verif_on.go (build tag verif); waits only bound observation, verdicts name the missing/present events'),
 'C18': ('exploration', 'classifier/dispatcher agreement monitor over prefixes and a header cube',
   'Every prefix of constructor-built frames, the header cube (length field x function code x protocol id) and dispatcher agreement on every accepted (fc, n).',
   'quick sweeps length fields 0..700 + boundaries, thorough all 65536'),
 'C19': ('exploration', 'hook trace vs transport log on one logical clock, hooks on/off pairs',
   'Recording hooks (arguments copied at call time) and the scripted transport share a clock; counts, arguments, order and BeforeParse (observed through a recording parser where possible) are compared on fragmentation and terminal-fault schedules, and outcomes with/without hooks must be equal.',
   'parser reach inferred from the outcome for clients without a pluggable parser'),
}
pending = {}
checks=[]
for pid,(lvl,tech,text,note) in sorted(P.items()):
    checks.append({
      'property_id':pid,'quick_cmd':f'./check {pid}','thorough_cmd':f'./check {pid} --tier thorough',
      'evidence_file':f'/verif/evidence/{pid}.json','replay_cmd_template':f'./check {pid} --replay {{path}}','engine':'worker',
      'level_claimed':{'category':lvl,'text':text+' Held means: held on the executions counted in the evidence file.','design_ref':f'DESIGN.md section 7, {pid}'},
      'level_note':note,'technique':'runtime monitoring: '+tech})
props=[json.loads(l)['id'] for l in open('/verif/properties.jsonl')]
na=[{'property_id':p,'reason':pending.get(p,'check not built yet in this session (runtime monitoring applies; see DESIGN.md section 7)')} for p in props if p not in P]
m={'version':1,'setup_cmd':'./setup.sh',
 'hooks':{'guard':'verif','enable':'go build -tags verif (harness module replaces github.com/aldas/go-modbus-client => /repo; ./check rebuilds on every run)',
          'baseline_off_cmd':'cd /repo && go test -mod=mod -vet=off -count=1 ./...','source_commits':hook_commits,'add_only':True},
 'engines':[{'name':'worker','path':'/verif/harness/cmd/worker','serves_properties':sorted(P),'kind_free_text':'Go monitor runtime: deterministic case generator -> real library code under monitors -> oracle from independent reference models (specref, regref, simdev) -> evidence/replay files'}],
 'checks':checks,'not_applicable':na,
 'notes':'Exit codes: 0 held (known findings listed in KNOWN_FINDINGS.txt are printed as KNOWN-FINDING lines), 1 VIOLATION, 2 INCONCLUSIVE (harness/build failure or nothing observed). VERIF_SEED selects the PRNG seed, VERIF_REPO an alternative tree for drills.'}
json.dump(m,open('/verif/MANIFEST.json','w'),indent=1)
print(len(checks),'checks;',len(na),'not applicable')

#!/usr/bin/env python3
"""Writes /verif/seeded/<id>/meta.json from the hand-written table below and the matrix result files given as arguments
(lines '<seeded-id> <property> rc=<n> <first signature>' produced by tools/matrix.sh)."""
import json, sys, os, glob, collections
NEEDS = {
 'c01-m1': ('C01', 'FC15 byte-count field computed as uint8(count+7)/8: wrong only for >= 249 coils', 'ported: no'),
 'c01-m2': ('C01', 'FC2 constructor limit check (quantity+7)/8 > 250 overflows: accepts exactly 65529..65535', ''),
 'c02-m1': ('C02', 'exception recognisers test byte > 0x80 instead of the high bit: only function-code byte exactly 0x80 stops being a typed exception', ''),
 'c02-m2': ('C02', 'FC3/4/23 response bytes() bounds 3+uint8(len): Bytes() panics only for byte counts 253..255 after a successful parse', ''),
 'c03-m1': ('C03', 'CRC16 unrolled 8 bytes per iteration with data[7] instead of data[i+7]: wrong only for inputs >= 16 bytes whose byte 8k+7 differs from byte 7', ''),
 'c03-m2': ('C03', 'WithCRC parsers reject only if BOTH trailer bytes are wrong (De Morgan slip): 510 of 65535 wrong trailers pass per frame', ''),
 'c04-m1': ('C04', 'string end index (length+1)/2*2 computed in uint8: only length 255 wraps -> panic or bytes behind the payload', 'ported to the repaired registers.go'),
 'c04-m2': ('C04', 'single-register bound checked on a uint16 byte offset: address start+32768+k aliases register start+k', 'ported to the repaired registers.go'),
 'c05-m1': ('C05', 'group key built by plain concatenation server+unit: 127.0.0.1:502/unit 11 and 127.0.0.1:5021/unit 1 collide -> fields read from the wrong device', ''),
 'c05-m2': ('C05', 'lenient extraction marks every field at or above the first failed address as failed: needs a truncated reply, lenient mode and mixed field widths', ''),
 'c06-m1': ('C06', 'follow-up batches of a split group lose the unit id: needs a group spanning more than the limit AND a non-zero unit id', 'ported to the repaired splitter.go'),
 'c06-m2': ('C06', 'string register size (Length+1)/2 in uint8: Length 255 -> 0 registers; needs a 255-byte string plus a neighbour in the same batch', ''),
 'c07-m1': ('C07', 'network client treats 4 consecutive empty timed-out reads after the first fragment as end of frame: needs a fragmented reply with >= 4 timeouts at the cut', ''),
 'c07-m2': ('C07', 'serial client checks the exception recogniser against the last chunk only: fragmented exception replies time out; a normal reply cut into a 5-byte chunk with a high second byte becomes a bogus exception', ''),
 'c08-m1': ('C08', 'serial receive buffer sized expectedLen+10: oversize replies are no longer detected (wrong error class or fabricated success)', ''),
 'c08-m2': ('C08', 'reused read timer drained outside the select: the call AFTER a timed-out call on the same client hangs forever (two-step sequence)', ''),
 'c09-m1': ('C09', 'FC3 request parsers refuse start+quantity > 65535 (off by one): legal requests whose block ends at register 65535 are refused', ''),
 'c09-m2': ('C09', 'FC15 parsers allocate coil data as count/8+1: coil counts divisible by 8 decode with an extra zero byte and re-encode differently', 'ported to the repaired parser'),
 'c10-m1': ('C10', 'ParseTCPResponse trims to the header length with guard <= cap(data): truncated frames in a larger buffer are extended into spare capacity (no panic, result depends on stale bytes)', ''),
 'c10-m2': ('C10', 'RTU FC3 response parser slices data[3:3+uint8]: panics for byte counts 253..255 with consistent length', ''),
 'c11-m1': ('C11', '"before start" check moved inside the range check: with start in the top 8*len addresses a lookup BEFORE the start wraps into the payload and returns a bit', ''),
 'c11-m2': ('C11', 'CoilsToBytes narrows the coil index to uint8: coils >= 256 are OR-ed into the first 32 bytes (needs > 256 coils with a set coil at index >= 256)', ''),
 'c12-m2': ('C12', 'ParseRTUResponseWithCRC also accepts the byte-swapped trailer: needs the two-byte corruption that exchanges the CRC bytes', ''),
 'c13-m1': ('C13', 'float accessors reverse little-endian bytes in place in the shared payload: needs a float read with LE or LE|HWF order and a later observation', ''),
 'c13-m2': ('C13', 'Field.ExtractFrom leaks the field byte order into the shared Registers (WithByteOrder mutates): later default-order fields decode differently depending on order', ''),
 'c14-m1': ('C14', 'Client hands out a slice of a shared receive buffer: a read response aliases memory the next Do overwrites (data race; reply of another caller seen after a delay)', ''),
 'c14-m2': ('C14', 'SerialClient waits for its turn with TryLock+ctx but defers Unlock before the error check: a caller cancelled while waiting unlocks the in-flight request (interleaved frames, fatal "Unlock of unlocked RWMutex")', ''),
 'c15-m1': ('C15', 'assembler resets its buffer after answering: the early-sent start of the next request (same read) is lost', 'ported to the repaired assembler'),
 'c15-m2': ('C15', 'assembler adopts the read slice instead of copying it when nothing is pending: a first fragment < 8 bytes is overwritten by the next read into the connection\'s reused buffer', 'ported to the repaired assembler'),
 'c16-m1': ('C16', 'assembler Reset() after Next(n): bytes of the next frame that arrived in the same read are dropped, the rest is answered with an exception addressed to nobody', 'ported to the repaired assembler'),
 'c16-m2': ('C16', 'panic recovery wraps rec.(error): a handler panic with a non-error value re-panics in the deferred function and kills the process', ''),
 'c17-m1': ('C17', 'busy flag set only around the response write: Shutdown closes a connection whose (slow) handler is still running', 'ported to the repaired server.go'),
 'c17-m2': ('C17', 'live count reserved at accept and never released on rejection: accept callback told too many after each rejected connection (a second sub-agent produced the identical change independently; kept once)', 'ported to the repaired server.go'),
 'c18-m1': ('C18', 'expected length computed as uint16(pduLen+6): wraps for length fields 65530..65535', ''),
 'c18-m2': ('C18', 'classifier enforces the 260-byte ADU limit although the constructors build 261..265-byte FC16/FC23 frames', 'ported to the repaired classifier'),
 'c19-m1': ('C19', 'serial AfterEachRead moved below the fatal-error return: the read that ends the call with an I/O error is never reported', ''),
 'c19-m2': ('C19', 'BeforeParse moved into the read loop exit total >= expectedLen: replies cut short by EOF are parsed without BeforeParse', ''),
 'c02-m3': ('C02', 'Client reads into a per-client receive buffer and returns a slice of it: an earlier response (FC1-4/23 alias their input) shows the payload of a later call on the same client', 'wave 2; the change is in client.go, so the packet-level C02 check cannot see it: it is caught at the client boundary by C07 (session mode) and C14'),
 'c02-m4': ('C02', 'exception recognisers additionally require a SUPPORTED originating function: the other 118 exception function codes become untyped "unknown function code" errors', 'wave 2'),
 'c05-m3': ('C05', 'group key server+unit without separator: 10.0.0.7:502/unit 1 collides with 10.0.0.7:50/unit 21', 'wave 2'),
 'c05-m4': ('C05', 'lenient extraction stops decoding after the first failed field: needs a truncated reply where an unreachable wide field precedes a reachable narrow one in request order', 'wave 2'),
 'c06-m3': ('C06', 'ambiguous group key (plain concatenation): targets mix when one port is a decimal prefix of the other and the unit ids supply the digits', 'wave 2'),
 'c06-m4': ('C06', 'AddAll adopts the caller\'s slice when the builder is empty and more than 5 fields are given: a later Add writes into shared spare capacity, the caller\'s own append overwrites it', 'wave 2'),
 'c07-m3': ('C07', 'network client checks the exception recogniser against the last chunk: fragmented exception replies time out; a 9-byte non-first fragment of a normal TCP reply can become a bogus exception', 'wave 2'),
 'c07-m4': ('C07', 'serial client returns "no bytes received" when the FIRST read is an empty timed-out read although the reply arrives on the next read', 'wave 2'),
 'c08-m3': ('C08', 'Client.Do leaves the mutex locked on the error path: the call AFTER a failed call on the same client hangs forever', 'wave 2'),
 'c08-m4': ('C08', 'Connect stores the dial result before checking the error: a dial function returning a typed-nil connection with an error makes the next Do panic instead of failing as not connected', 'wave 2'),
 'c10-m3': ('C10', 'classifier fills tid/unit into the shared ErrIsNotTCPPacket sentinel for function-code-0 frames: errors handed out for other inputs change afterwards (result depends on earlier calls)', 'wave 2'),
 'c10-m4': ('C10', 'FC23 TCP parser sizes the write-data copy from the write quantity while the length check uses the byte count: inconsistent frames panic or read spare capacity', 'wave 2'),
 'c12-m3': ('C12', 'CRC compared byte by byte with && instead of ||: frames where exactly one CRC byte still matches are accepted as data / device exception', 'wave 2'),
 'c12-m4': ('C12', 'ParseRTUResponseWithCRC recognises exception frames BEFORE the CRC check: a bad-CRC 5-byte frame reaching the parser (EOF right after it, or expected length <= 5) becomes a device exception', 'wave 2'),
 'c13-m3': ('C13', 'Uint16/Int16 fields honour Field.ByteOrder through WithByteOrder, which mutates the shared Registers: later default-order reads decode little endian', 'wave 2'),
 'c13-m4': ('C13', 'string byte swap done in place whenever the BigEndian flag is unset-copy / LittleEndian flag unset-swap disagree: only byte orders 4, 8, 12 (word-order flags without endianness) mutate the payload', 'wave 2'),
 'c14-m3': ('C14', 'Close sets conn=nil and Do checks conn under RLock before taking the exclusive lock: a Close between check and Lock makes Do dereference a nil connection (panic)', 'wave 2'),
 'c14-m4': ('C14', 'SerialClient reuses one receive buffer and returns a slice of it: replies held by one goroutine are overwritten by the next request of another (data race + wrong content)', 'wave 2'),
 'c15-m3': ('C15', 'assembler fast path for a whole first frame stores the tail without draining it: a second whole request in the same read is not answered until more bytes arrive', 'wave 2'),
 'c15-m4': ('C15', 'cached pending-frame length is never cleared when the frame completes: after a request cut at offset >= 8, a later SHORTER request on the same connection is left unanswered', 'wave 2'),
 'c16-m3': ('C16', 'one default assembler shared by all connections: a partial frame pending on connection A is joined with the bytes of connection B, which gets a reply carrying A\'s tid/unit', 'wave 2'),
 'c16-m4': ('C16', 'recovered handler panic reported through the raw s.OnErrorFunc: with OnErrorFunc unset a handler panic calls a nil func in the deferred block and kills the process', 'wave 2'),
 'c17-m3': ('C17', 'busy flag cleared right after the handler returns, before the reply is written: a Shutdown landing between handler return and write closes the connection, Shutdown returns nil, reply lost', 'wave 2'),
 'c18-m3': ('C18', 'unsupported-function error built by mutating a package-level template (pointer copy): the exception returned for frame A changes once another unsupported frame is classified', 'wave 2'),
 'c18-m4': ('C18', 'new FC16 check "byte count == 2 x register count" copy-pasted from FC15: its exception names function 0x0f instead of 0x10 for self-consistent frames with a mismatching quantity', 'wave 2'),
 'c19-m3': ('C19', 'BeforeParse receives a hook-side copy that is only cleared when a reply reaches the parser: after a failed call its bytes are prepended to the next call\'s frame (two calls on one client)', 'wave 2'),
 'c19-m4': ('C19', 'serial AfterEachRead moved below the fatal-error check: the read that ends the call with an I/O error is never reported', 'wave 2'),
 'c11-m3': ('C11', 'IsCoilSet/IsInputSet clip the payload to the stored byte-count field: hand-built responses with an unset or stale length field lose coils (parsed responses unaffected)', 'wave 2'),
 'c11-m4': ('C11', 'client receive buffer reused across calls: an earlier coil response decodes as the later one', 'wave 2; change is in client.go: caught at the client boundary by C07 (session mode) and C14, not by the packet-level C11 check'),
 'c01-m3': ('C01', 'shared read-request encoder clamps the quantity when start+quantity > 65536: Bytes() carries a smaller quantity than the accepted request', 'wave 2'),
 'c01-m4': ('C01', 'CoilsToBytes rounds up with (n+8)/8: coil counts that are multiples of 8 get a spare zero byte (byte count, MBAP length consistent but one too large)', 'wave 2'),
 'c03-m3': ('C03', 'ParseRTUResponseWithCRC recognises exception frames before the CRC comparison: every 5-byte frame with the exception bit passes for all 65536 trailers', 'wave 2'),
 'c03-m4': ('C03', 'FC3 RTU response CRC computed over the bytes filled rather than the frame length: hand-built responses with RegisterByteLen != len(Data) carry a trailer that is not the CRC of the preceding bytes', 'wave 2'),
 'c04-m3': ('C04', 'explicit byte order without a word-order flag inherits the word order of the view default: needs WithByteOrder(low word first) earlier, then an endianness-only explicit order', 'wave 2'),
 'c04-m4': ('C04', 'String bounds check uses cap instead of len: reads past the window succeed when the payload slice has spare capacity (RTU CRC bytes, reused buffers)', 'wave 2'),
 'c09-m3': ('C09', 'FC16 request parsers return a view of the input buffer instead of a copy: the decoded request changes when the receive buffer is reused', 'wave 2'),
 'c09-m4': ('C09', 'FC5 value check rewritten as a mask testing only the low byte: the 254 illegal values 0x0100..0xFE00 are decoded as "off"', 'wave 2'),
}
res = collections.defaultdict(dict)
for f in sys.argv[1:]:
    for l in open(f):
        p = l.split(None, 3)
        if len(p) >= 3 and p[2].startswith('rc='):
            res[p[0]][p[1]] = (int(p[2][3:]), p[3].strip() if len(p) > 3 else '')
for sid,(prop,needs,note) in NEEDS.items():
    d = '/verif/seeded/'+sid
    if not os.path.isdir(d): continue
    demo = [os.path.basename(x) for x in glob.glob(d+'/*_test.go')]
    demo_dir = open(d+'/.demo_dir').read().strip() if os.path.exists(d+'/.demo_dir') else '?'
    caught = {k:v[1] for k,v in sorted(res.get(sid,{}).items()) if v[0]==1}
    inconcl = [k for k,v in res.get(sid,{}).items() if v[0]==2]
    meta = {'id':sid,'breaks_property':prop,'needs_to_manifest':needs,
      'origin':'written by an independent sub-agent given only the property text and a scratch worktree; '+(note or 'patch applies to /repo HEAD unchanged'),
      'demonstration':{'file':demo,'copy_to':'<repo>/'+('' if demo_dir=='.' else demo_dir+'/'),'run':'go test -mod=mod -vet=off -count=1 ./'+('' if demo_dir=='.' else demo_dir+'/')},
      'confirmed_by':'tools/verify_seeded.sh in a scratch worktree of /repo HEAD: patch applies; full suite passes with it; demo passes without it and fails with it',
      'checks_run':'tools/matrix.sh: every quick check with VERIF_REPO pointing at a worktree with the patch applied (seed 1)',
      'caught_by':caught,'own_property_check_catches': prop in caught,'inconclusive':inconcl}
    json.dump(meta, open(d+'/meta.json','w'), indent=1)
    print(sid, prop, 'CAUGHT' if prop in caught else 'MISSED', 'by', ','.join(caught) or '-')

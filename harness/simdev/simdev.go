// Package simdev is a specification-conforming simulated Modbus device built only on specref
// (it never touches the library's parsers or encoders). Memory content is a hash of
// (seed, server, unit, table, address) unless overwritten, so 4 x 65536 cells per unit need no storage
// and every reply identifies the request that caused it.
package simdev

import (
	"sync"

	"verif/specref"
)

// Tables.
const (
	Coils = iota
	Discrete
	Holding
	Input
)

type key struct {
	unit  uint8
	table int
	addr  int
}

// Device is one server address with all its unit ids.
type Device struct {
	Seed   uint64
	Server string

	mu   sync.Mutex
	over map[key]uint16
	// ShortBy > 0 makes read register/coil replies shorter by that many registers / bytes (still well-formed).
	ShortBy int
	// ServerID returned for FC17.
	ServerID []byte
}

// New creates a device.
func New(seed uint64, server string) *Device {
	return &Device{Seed: seed, Server: server, over: map[key]uint16{}, ServerID: []byte{0x53, 0x49, 0x4D}}
}

func mix(h uint64, v uint64) uint64 {
	h ^= v + 0x9e3779b97f4a7c15 + (h << 6) + (h >> 2)
	h *= 0xff51afd7ed558ccd
	h ^= h >> 33
	return h
}

func (d *Device) hash(unit uint8, table, addr int) uint64 {
	h := d.Seed
	for _, c := range []byte(d.Server) {
		h = mix(h, uint64(c))
	}
	h = mix(h, uint64(unit))
	h = mix(h, uint64(table))
	h = mix(h, uint64(addr))
	return h
}

// Reg returns the 16-bit content of a register cell.
func (d *Device) Reg(unit uint8, table, addr int) uint16 {
	d.mu.Lock()
	defer d.mu.Unlock()
	if v, ok := d.over[key{unit, table, addr}]; ok {
		return v
	}
	return uint16(d.hash(unit, table, addr))
}

// Coil returns the content of a coil / discrete input cell.
func (d *Device) Coil(unit uint8, table, addr int) bool {
	d.mu.Lock()
	defer d.mu.Unlock()
	if v, ok := d.over[key{unit, table, addr}]; ok {
		return v != 0
	}
	return d.hash(unit, table, addr)&1 == 1
}

// Set overwrites a cell.
func (d *Device) Set(unit uint8, table, addr int, v uint16) {
	d.mu.Lock()
	d.over[key{unit, table, addr}] = v
	d.mu.Unlock()
}

// RegBytes returns the wire bytes of n registers.
func (d *Device) RegBytes(unit uint8, table, addr, n int) []byte {
	out := make([]byte, 0, 2*n)
	for i := 0; i < n; i++ {
		v := d.Reg(unit, table, addr+i)
		out = append(out, byte(v>>8), byte(v))
	}
	return out
}

func exc(q specref.Req, code uint8) specref.Resp {
	return specref.Resp{FC: q.FC, Unit: q.Unit, TID: q.TID, Exception: true, ExCode: code}
}

// Handle answers a decoded request as the specification's state diagrams prescribe:
// 01 unsupported function, 03 quantity out of range / inconsistent byte count, 02 address range beyond 65535.
func (d *Device) Handle(q specref.Req) specref.Resp {
	p := specref.Resp{FC: q.FC, Unit: q.Unit, TID: q.TID}
	switch q.FC {
	case 1, 2:
		if q.Qty < 1 || q.Qty > 2000 {
			return exc(q, 3)
		}
		if int(q.Addr)+int(q.Qty) > 65536 {
			return exc(q, 2)
		}
		coils := make([]bool, q.Qty)
		for i := range coils {
			coils[i] = d.Coil(q.Unit, int(q.FC)-1, int(q.Addr)+i)
		}
		p.Data = specref.PackCoils(coils)
		if d.ShortBy > 0 && len(p.Data) > d.ShortBy {
			p.Data = p.Data[:len(p.Data)-d.ShortBy]
		}
	case 3, 4:
		if q.Qty < 1 || q.Qty > 125 {
			return exc(q, 3)
		}
		if int(q.Addr)+int(q.Qty) > 65536 {
			return exc(q, 2)
		}
		n := int(q.Qty)
		if d.ShortBy > 0 && n > d.ShortBy {
			n -= d.ShortBy
		}
		p.Data = d.RegBytes(q.Unit, int(q.FC)-1, int(q.Addr), n)
	case 5:
		if q.Value != 0 && q.Value != 0xFF00 {
			return exc(q, 3)
		}
		v := uint16(0)
		if q.Value == 0xFF00 {
			v = 1
		}
		d.Set(q.Unit, Coils, int(q.Addr), v)
		p.Addr, p.Value = q.Addr, q.Value
	case 6:
		d.Set(q.Unit, Holding, int(q.Addr), q.Value)
		p.Addr, p.Value = q.Addr, q.Value
	case 15:
		if q.Qty < 1 || q.Qty > 1968 || len(q.Data) != (int(q.Qty)+7)/8 {
			return exc(q, 3)
		}
		if int(q.Addr)+int(q.Qty) > 65536 {
			return exc(q, 2)
		}
		for i := 0; i < int(q.Qty); i++ {
			v := uint16(0)
			if specref.CoilBit(q.Data, i) {
				v = 1
			}
			d.Set(q.Unit, Coils, int(q.Addr)+i, v)
		}
		p.Addr, p.Qty = q.Addr, q.Qty
	case 16:
		if q.Qty < 1 || q.Qty > 123 || len(q.Data) != 2*int(q.Qty) {
			return exc(q, 3)
		}
		if int(q.Addr)+int(q.Qty) > 65536 {
			return exc(q, 2)
		}
		for i := 0; i < int(q.Qty); i++ {
			d.Set(q.Unit, Holding, int(q.Addr)+i, uint16(q.Data[2*i])<<8|uint16(q.Data[2*i+1]))
		}
		p.Addr, p.Qty = q.Addr, q.Qty
	case 17:
		p.ServerID = append([]byte{}, d.ServerID...)
		p.Status = 0xFF
	case 23:
		if q.Qty < 1 || q.Qty > 125 || q.WQty < 1 || q.WQty > 121 || len(q.Data) != 2*int(q.WQty) {
			return exc(q, 3)
		}
		if int(q.Addr)+int(q.Qty) > 65536 || int(q.WAddr)+int(q.WQty) > 65536 {
			return exc(q, 2)
		}
		for i := 0; i < int(q.WQty); i++ { // the write is performed before the read
			d.Set(q.Unit, Holding, int(q.WAddr)+i, uint16(q.Data[2*i])<<8|uint16(q.Data[2*i+1]))
		}
		p.Data = d.RegBytes(q.Unit, Holding, int(q.Addr), int(q.Qty))
	default:
		return exc(q, 1)
	}
	return p
}

// Serve decodes a request ADU with the reference decoder and returns the reply ADU (nil when the ADU is not decodable).
func (d *Device) Serve(f specref.Framing, adu []byte) []byte {
	q, err := specref.DecodeReq(f, adu)
	if err != nil {
		return nil
	}
	return d.Handle(q).Encode(f)
}

// worker runs one property check: worker -prop C03 -tier quick -seed 1 -verif /verif
package main

import (
	"flag"
	"fmt"
	"os"
	"sort"

	"verif/mon"
	"verif/props"
)

func main() {
	prop := flag.String("prop", "", "property id")
	tier := flag.String("tier", "quick", "quick|thorough")
	seed := flag.Int64("seed", 1, "PRNG seed")
	verif := flag.String("verif", "/verif", "verif directory")
	replay := flag.String("replay", "", "replay file")
	cin := flag.String("child-in", "", "")
	cout := flag.String("child-out", "", "")
	clog := flag.String("child-log", "", "")
	list := flag.Bool("list", false, "list properties")
	flag.Parse()
	reg := props.Registry()
	if *list {
		var ids []string
		for id := range reg {
			ids = append(ids, id)
		}
		sort.Strings(ids)
		for _, id := range ids {
			fmt.Println(id)
		}
		return
	}
	mk, ok := reg[*prop]
	if !ok {
		fmt.Printf("INCONCLUSIVE property=%s reason=no such check\n", *prop)
		os.Exit(2)
	}
	if *tier != "quick" && *tier != "thorough" {
		fmt.Printf("INCONCLUSIVE property=%s reason=bad tier %q\n", *prop, *tier)
		os.Exit(2)
	}
	s := mk()
	os.Exit(mon.Main(s, mon.Options{Tier: *tier, Seed: *seed, VerifDir: *verif, Replay: *replay,
		ChildIn: *cin, ChildOut: *cout, ChildLog: *clog, RaceBuilt: raceEnabled}))
}

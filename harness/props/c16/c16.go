// Package c16: every server reply is a well-formed ADU addressed to the request it answers.
package c16

import (
	"bytes"
	"context"
	"errors"
	"fmt"
	modbus "github.com/aldas/go-modbus-client"
	"math/rand"
	"net"
	"runtime"
	"time"

	"github.com/aldas/go-modbus-client/packet"
	"github.com/aldas/go-modbus-client/server"
	"verif/libx"
	"verif/mon"
	"verif/simdev"
	"verif/specref"
	"verif/srvx"
)

type Case struct {
	Kind string `json:"kind"` // frames | unsupported | sequence
	Mode string `json:"mode"` // dev | typed-error | generic-error
	Lo   int    `json:"lo,omitempty"`
	Hi   int    `json:"hi,omitempty"`
	Seed int64  `json:"seed"`
	N    int    `json:"n"`
}

// CrashAttrs names the case class when the child process dies while executing it.
func (c *Case) CrashAttrs() mon.Attrs { return mon.Attrs{"kind": c.Kind, "mode": c.Mode} }

func Spec() *mon.Spec {
	return &mon.Spec{
		ID:      "C16",
		RuleAdd: "Later additions (rounds 4-17): garbage tails incl. huge announced lengths; handler modes mutate-then-error, foreign exception, runtime.Goexit, library response types with oversized Data; the connection of a panicking handler must be closed by the server; long out-of-range bodies; FC5 values with a zero low byte; stalled readers (500 ms and 220 ms against a 150 ms write timeout).",
		Level:   "fault_enumeration",
		Rule: "request frames of classes {valid (10 functions), unsupported function code 1..127, quantity/value out of range, header-consistent truncated body, inconsistent byte count} x handlers {device response, fully filled *ErrorParseTCP, generic error, panic}. frames/unsupported: each frame is fed whole to a fresh ModbusTCPAssembler (layer A). sequence: fault sequences of such frames on one connection of a real server.Server (in-memory listener, -race) while a second, well-behaved control connection keeps issuing valid requests. " +
			"Oracle: every reply decodes with the reference decoder (protocol 0, length field = following bytes), transaction id and unit id equal those of the request it answers (k-th reply <-> k-th request), exception replies are 9 bytes with fc|0x80 of that request; code 01 for unsupported functions, 03 for out-of-range quantities/values; a valid request answered by the device handler equals the reference reply; a panicking handler closes only its own connection: the worker process stays alive (cases run in child processes) and the control connection receives every reply. distinct key=(class, function, handler mode, length).",
		Assumptions:  []string{"code of exceptions derived from handler errors and from truncated bodies is not constrained (only 01 and 03 are named by the property)"},
		NewCase:      func() any { return &Case{} },
		Gen:          gen,
		Run:          run,
		Race:         true,
		Isolated:     true,
		BatchSize:    12,
		ChildWorkers: 2,
		SelfTest:     specref.SelfTest,
	}
}

func gen(g *mon.Gen) {
	rng := g.Rng
	for _, mode := range []string{"dev", "typed-error", "generic-error"} {
		for i := 0; i < g.Pick(30, 2500); i++ {
			g.Emit(&Case{Kind: "frames", Mode: mode, Seed: rng.Int63(), N: 200})
		}
	}
	for lo := 1; lo < 128; lo += 16 {
		g.Emit(&Case{Kind: "unsupported", Mode: "dev", Lo: lo, Hi: lo + 15, Seed: rng.Int63()})
	}
	for i := 0; i < g.Pick(40, 1500); i++ {
		g.Emit(&Case{Kind: "sequence", Mode: "mixed", Seed: rng.Int63(), N: 6 + rng.Intn(14)})
	}
	for i := 0; i < g.Pick(150, 10000); i++ {
		g.Emit(&Case{Kind: "stream", Mode: []string{"dev", "typed-error", "generic-error"}[i%3], Seed: rng.Int63(), N: 2 + rng.Intn(6)})
		if i < g.Pick(3, 12) {
			g.Emit(&Case{Kind: "stalled-reader", Mode: "dev", Seed: rng.Int63(), N: i})
		}
	}
}

type frame struct {
	b     []byte
	class string // valid | unsupported | out-of-range | truncated | bad-bytecount
	fc    uint8
	tid   uint16
	unit  uint8
	mode  string // handler behaviour for this frame
}

// mkFrame draws one frame of the given class.
func mkFrame(rng *rand.Rand, class string, fcSel int) frame {
	fc := specref.FCs[rng.Intn(10)]
	if fcSel > 0 {
		fc = uint8(fcSel)
	}
	q := libx.LegalReq(rng, fc, []float64{0, 0.5, 1}[rng.Intn(3)])
	q.TID = uint16(1 + rng.Intn(65535))
	q.Unit = uint8(1 + rng.Intn(255))
	if (fc == 1 || fc == 2) && q.Qty > 125 {
		q.Qty = uint16(1 + rng.Intn(125))
	}
	f := frame{class: class, fc: fc, tid: q.TID, unit: q.Unit}
	switch class {
	case "valid":
		f.b = q.Encode(specref.TCP)
	case "unsupported":
		for {
			f.fc = uint8(1 + rng.Intn(127))
			if fcSel > 0 {
				f.fc = uint8(fcSel)
			}
			if !specref.Supported(f.fc) {
				break
			}
			fcSel = 0
		}
		f.b = specref.Frame(specref.TCP, q.TID, q.Unit, append([]byte{f.fc}, libx.RandBytes(rng, 2+rng.Intn(12))...))
	case "out-of-range":
		switch fc {
		case 1, 2:
			q.Qty = []uint16{0, 2001, 2500, 0xFFFF}[rng.Intn(4)]
		case 3, 4:
			q.Qty = []uint16{0, 126, 127, 0xFFFF}[rng.Intn(4)]
		case 5:
			q.Value = []uint16{1, 0x00FF, 0xFF01, 0xFFFF, 0x0100, 0x8000, 0xFE00, uint16(1+rng.Intn(254)) << 8}[rng.Intn(8)]
		case 15:
			q.Qty = []uint16{0, 1969, 2000, 0xFFFF}[rng.Intn(4)]
			if (q.Qty == 1969 || q.Qty == 2000) && rng.Intn(2) == 0 {
				q.Data = libx.RandBytes(rng, (int(q.Qty)+7)/8) // body consistent with the (too large) coil count
			}
		case 16:
			q.Qty = []uint16{0, 124, 125, 0xFFFF}[rng.Intn(4)]
			if (q.Qty == 124 || q.Qty == 125) && rng.Intn(2) == 0 {
				q.Data = libx.RandBytes(rng, 2*int(q.Qty)) // the body really carries that many registers: a frame longer than 260 bytes
			}
		case 23:
			if rng.Intn(2) == 0 {
				q.Qty = []uint16{0, 126, 0xFFFF}[rng.Intn(3)]
			} else {
				q.WQty = []uint16{0, 122, 0xFFFF}[rng.Intn(3)]
			}
		default: // FC6/FC17 have no range to violate: use FC3
			q = specref.Req{FC: 3, Unit: q.Unit, TID: q.TID, Addr: q.Addr, Qty: 0}
			f.fc = 3
		}
		f.b = q.Encode(specref.TCP)
	case "truncated":
		full := q.Encode(specref.TCP)
		min := 8
		if len(full) <= 8 { // FC17 cannot be truncated and stay classifiable: use FC3
			q = specref.Req{FC: 3, Unit: q.Unit, TID: q.TID, Addr: 1, Qty: 1}
			f.fc = 3
			full = q.Encode(specref.TCP)
		}
		n := min + 1 + rng.Intn(len(full)-min-1) // 9 .. len-1 bytes: unit, function and at least one body byte
		pdu := append([]byte{}, full[7:n]...)
		f.b = specref.Frame(specref.TCP, q.TID, q.Unit, pdu) // header consistent with the shortened frame
	case "bad-bytecount":
		if fc != 15 && fc != 16 && fc != 23 {
			fc = []uint8{15, 16, 23}[rng.Intn(3)]
			q = libx.LegalReq(rng, fc, 0.5)
			q.TID, q.Unit = f.tid, f.unit
			f.fc = fc
		}
		b := q.Encode(specref.TCP)
		off := 12
		if fc == 23 {
			off = 16
		}
		if rng.Intn(2) == 0 {
			b[off] = byte(int(b[off]) + []int{1, -1, 2, 7, -2}[rng.Intn(5)])
		} else {
			// byte count equals the data present, but the quantity field (kept inside the legal range) disagrees with it
			qoff := off - 2
			qv := int(b[qoff])<<8 | int(b[qoff+1])
			nq := qv + []int{1, -1, 2}[rng.Intn(3)]
			if nq < 1 {
				nq = qv + 1
			}
			if lim := map[uint8]int{15: 1968, 16: 123, 23: 121}[fc]; nq > lim {
				nq = qv - 1
			}
			b[qoff], b[qoff+1] = byte(nq>>8), byte(nq)
		}
		f.b = b
	}
	return f
}

var errGeneric = errors.New("verif: handler failed for an application reason")

// handler returns the ModbusHandler for a mode; modeOf lets sequences choose per request (by transaction id).
func handler(dev *simdev.Device, modeOf func(tid uint16) string) server.ModbusHandler {
	devH := srvx.DevHandler(dev, nil)
	return srvx.HandlerFunc(func(ctx context.Context, req packet.Request) (packet.Response, error) {
		b := req.Bytes()
		tid := uint16(b[0])<<8 | uint16(b[1])
		switch modeOf(tid) {
		case "typed-error":
			e := packet.NewErrorParseTCP(packet.ErrIllegalDataAddress, "verif: address not served")
			e.Packet.TransactionID, e.Packet.UnitID, e.Packet.Function = tid, b[6], b[7]
			return nil, e
		case "generic-error":
			return nil, errGeneric
		case "mutate-then-error":
			// a gateway-style handler: it rewrites the addressing of the request value it was given, then fails
			libx.Readdress(req, tid^0x5a5a, b[6]^0x33)
			return nil, errGeneric
		case "foreign-exception":
			// the handler forwarded the request to a downstream device (another unit, another transaction id) and returns
			// the error its client got there: an error that wraps the downstream exception
			return nil, &modbus.ClientError{Err: &packet.ErrorResponseTCP{TransactionID: tid ^ 0x0f0f, UnitID: b[6] ^ 0x21, Function: b[7] ^ 0x01, Code: packet.ErrIllegalDataAddress}}
		case "slow":
			time.Sleep(400 * time.Millisecond) // longer than the server's write timeout (300 ms here): the reply is still owed
		case "panic-string":
			panic("verif: handler panics with a string")
		case "panic-error":
			panic(errGeneric)
		case "panic-nilmap":
			var m map[string]int
			m["x"] = 1
		case "lib-response":
			// a handler that answers with the library's own response types and hands them the rest of its register bank
			// as Data (a window bank[start*2:], longer than the byte count it states): the reply on the wire still has
			// the length its header announces
			if resp, err := devH.Handle(ctx, req); err == nil && resp != nil && (b[7] == 3 || b[7] == 4) {
				rb := resp.Bytes()
				if len(rb) >= 9 && rb[7] == b[7] {
					data := append(append([]byte{}, rb[9:]...), 0xde, 0xad, 0xbe, 0xef, 0x01, 0x02)
					if b[7] == 3 {
						return &packet.ReadHoldingRegistersResponseTCP{MBAPHeader: packet.MBAPHeader{TransactionID: tid}, ReadHoldingRegistersResponse: packet.ReadHoldingRegistersResponse{UnitID: b[6], RegisterByteLen: rb[8], Data: data}}, nil
					}
					return &packet.ReadInputRegistersResponseTCP{MBAPHeader: packet.MBAPHeader{TransactionID: tid}, ReadInputRegistersResponse: packet.ReadInputRegistersResponse{UnitID: b[6], RegisterByteLen: rb[8], Data: data}}, nil
				}
				return resp, err
			}
		case "panic-goexit":
			// not a panic in the language's sense, but the same thing to the server: the handler's goroutine ends without
			// returning (what t.FailNow or log.Fatal-style helpers do when called inside a handler)
			runtime.Goexit()
		}
		return devH.Handle(ctx, req)
	})
}

// checkReply decides one reply against its request.
func checkReply(c *Case, r *mon.Rec, f frame, reply []byte, ref []byte, where string) {
	r.Eval(1)
	a := mon.Attrs{"class": f.class, "mode": f.mode, "where": where}
	ctx := fmt.Sprintf("%s: request (%s, fc %d, handler %s) % x -> reply % x", where, f.class, f.fc, f.mode, head(f.b), head(reply))
	r.Distinct(mon.Mix(mon.HashS(f.class), uint64(f.fc), mon.HashS(f.mode), uint64(len(f.b)), mon.HashS(where)))
	if len(reply) == 0 {
		r.Violate(c, "no-reply", a, ctx)
		return
	}
	p, err := specref.DecodeResp(specref.TCP, reply)
	if err != nil && !(f.class == "unsupported" && len(reply) == 9) {
		r.Violate(c, "reply-malformed", a, fmt.Sprintf("%s: %v", ctx, err))
		return
	}
	if err != nil { // exception for an unsupported function: decode by hand
		p = specref.Resp{TID: uint16(reply[0])<<8 | uint16(reply[1]), Unit: reply[6], FC: reply[7] & 0x7f, Exception: reply[7]&0x80 != 0, ExCode: reply[8]}
		if reply[2] != 0 || reply[3] != 0 || reply[4] != 0 || reply[5] != 3 {
			r.Violate(c, "reply-malformed", a, ctx)
			return
		}
	}
	if p.TID != f.tid || p.Unit != f.unit {
		a["field"] = map[bool]string{true: "tid", false: "unit"}[p.TID != f.tid]
		r.Violate(c, "reply-misaddressed", a, fmt.Sprintf("%s: reply carries tid %d unit %d, request tid %d unit %d", ctx, p.TID, p.Unit, f.tid, f.unit))
		return
	}
	if p.FC != f.fc {
		r.Violate(c, "reply-wrong-function", a, fmt.Sprintf("%s: reply function %d (exception=%v), request function %d", ctx, p.FC, p.Exception, f.fc))
		return
	}
	wantExc := f.class == "unsupported" || f.class == "out-of-range" || f.class == "truncated" || (f.class == "valid" && !isDev(f.mode))
	if wantExc && !p.Exception {
		r.Violate(c, "exception-expected", a, ctx)
		return
	}
	if p.Exception && len(reply) != 9 {
		r.Violate(c, "exception-length", a, ctx)
	}
	switch {
	case f.class == "unsupported" && p.ExCode != 1:
		r.Violate(c, "exception-code", mon.Attrs{"class": f.class, "want": 1, "got": int(p.ExCode)}, ctx)
	case f.class == "out-of-range" && p.ExCode != 3:
		r.Violate(c, "exception-code", mon.Attrs{"class": f.class, "want": 3, "got": int(p.ExCode)}, ctx)
	case f.class == "valid" && f.mode == "typed-error" && p.ExCode != 2:
		r.Violate(c, "exception-code", mon.Attrs{"class": "typed-error", "want": 2, "got": int(p.ExCode)}, ctx)
	case f.class == "valid" && isDev(f.mode) && ref != nil && !bytes.Equal(reply, ref):
		r.Violate(c, "reply-differs-from-device", a, fmt.Sprintf("%s: device reference reply % x", ctx, head(ref)))
	}
}

// readReply reads one reply: 9 bytes first, then the rest according to the length field.
func readReply(conn net.Conn) []byte {
	rep, _ := readReplyErr(conn)
	return rep
}

func readReplyErr(conn net.Conn) ([]byte, error) {
	rep, rerr := srvx.ReadN(conn, 9, 5*time.Second)
	if rerr == nil && len(rep) == 9 {
		if n := 6 + int(rep[4])<<8 + int(rep[5]); n > 9 && n <= 300 {
			more, _ := srvx.ReadN(conn, n-9, 5*time.Second)
			rep = append(rep, more...)
		}
	}
	return rep, rerr
}

// isDev: the handler answers from the simulated device (at once or after a while).
func isDev(m string) bool { return m == "dev" || m == "slow" || m == "lib-response" }

func isPanicMode(m string) bool { return len(m) > 5 && m[:5] == "panic" }

func head(b []byte) []byte {
	if len(b) > 32 {
		return b[:32]
	}
	return b
}

var classes = []string{"valid", "valid", "unsupported", "out-of-range", "truncated", "bad-bytecount"}

func run(ci any, r *mon.Rec) {
	c := ci.(*Case)
	rng := rand.New(rand.NewSource(c.Seed))
	switch c.Kind {
	case "frames":
		for i := 0; i < c.N; i++ {
			f := mkFrame(rng, classes[rng.Intn(len(classes))], 0)
			f.mode = c.Mode
			one(c, r, rng, f)
		}
		r.Sample(map[string]any{"kind": "frames", "mode": c.Mode, "frames": c.N})
	case "unsupported":
		for fc := c.Lo; fc <= c.Hi && fc < 128; fc++ {
			if specref.Supported(uint8(fc)) {
				continue
			}
			for k := 0; k < 6; k++ {
				f := mkFrame(rng, "unsupported", fc)
				f.mode = "dev"
				one(c, r, rng, f)
			}
		}
	case "sequence":
		runSeq(c, r, rng)
	case "stream":
		runStream(c, r, rng)
	case "stalled-reader":
		runStalled(c, r, rng)
	}
}

// runStalled: a client takes the first two bytes of a reply and then stops reading for longer than the server's write
// timeout. The write times out half way: that reply is torn. Whatever the server does next, it must not put further
// replies behind the torn one on the same connection - the stream would no longer be a sequence of well-formed ADUs.
func runStalled(c *Case, r *mon.Rec, rng *rand.Rand) {
	dev := simdev.New(uint64(c.Seed), "srv")
	l := srvx.NewMemListener()
	s := &server.Server{OnErrorFunc: func(error) {}, WriteTimeout: 150 * time.Millisecond}
	patient := c.N%3 == 2
	if patient {
		// a third of the runs: the server is configured to be patient with slow readers (write timeout 2 s) and the client
		// dawdles for 120 ms only - nothing is torn, both replies arrive complete
		s.WriteTimeout = 2 * time.Second
	}
	ctx, cancel := context.WithCancel(context.Background())
	served := make(chan error, 1)
	go func() { served <- s.Serve(ctx, l, srvx.DevHandler(dev, nil)) }()
	defer func() {
		sctx, sc := context.WithTimeout(context.Background(), 3*time.Second)
		_ = s.Shutdown(sctx)
		sc()
		cancel()
		select {
		case <-served:
		case <-time.After(3 * time.Second):
		}
	}()
	cli, _, err := l.Dial(2 * time.Second)
	if err != nil {
		r.Inconclusive("stalled-reader: cannot connect: " + err.Error())
		return
	}
	defer cli.Close()
	r.Eval(1)
	q1 := specref.Req{FC: 3, Unit: 1 + libx.U8(rng)%200, TID: 0x2211, Addr: libx.U16(rng) % 60000, Qty: uint16(10 + rng.Intn(100))}
	want1 := simdev.New(uint64(c.Seed), "srv").Handle(q1).Encode(specref.TCP)
	_ = cli.SetWriteDeadline(time.Now().Add(2 * time.Second))
	if _, err := cli.Write(q1.Encode(specref.TCP)); err != nil {
		r.Inconclusive("stalled-reader: write: " + err.Error())
		return
	}
	head2, _ := srvx.ReadN(cli, 2, 2*time.Second)
	if len(head2) != 2 {
		r.Violate(c, "no-reply", mon.Attrs{"where": "stalled-reader"}, "no reply bytes at all")
		return
	}
	// the server's write (150 ms) gives up meanwhile. Half of the runs come back soon after that (220 ms): whatever the
	// server does about a write that timed out half-way, the bytes the client already has are not sent a second time
	stall := 500 * time.Millisecond
	if c.N%2 == 0 {
		stall = 220 * time.Millisecond
	}
	if patient {
		stall = 120 * time.Millisecond
	}
	time.Sleep(stall)
	// the client comes back: it sends its next request and reads whatever the connection still delivers
	q2 := specref.Req{FC: 3, Unit: q1.Unit, TID: 0x2212, Addr: 7, Qty: 3}
	var early []byte
	if stall < 300*time.Millisecond {
		// (the soon-returning client reads first: on this synchronous transport its own write would otherwise wait for the
		// server, which may be busy writing)
		early = srvx.Drain(cli, 400*time.Millisecond)
	}
	_ = cli.SetWriteDeadline(time.Now().Add(300 * time.Millisecond))
	_, _ = cli.Write(q2.Encode(specref.TCP))
	rest := append(early, srvx.Drain(cli, 600*time.Millisecond)...)
	all := append(append([]byte{}, head2...), rest...)
	r.Distinct(mon.Mix(0x57a11, uint64(c.Seed)))
	r.Cover("stalled-reader", fmt.Sprintf("bytes-after-the-stall=%v", len(rest) > 0))
	// acceptable: the torn reply and nothing else (connection closed), or - had the write not timed out - the complete stream
	want2 := simdev.New(uint64(c.Seed), "srv").Handle(q2).Encode(specref.TCP)
	whole := append(append([]byte{}, want1...), want2...)
	if patient {
		if !bytes.Equal(all, whole) {
			r.Violate(c, "reply-torn-within-write-timeout", mon.Attrs{"where": "stalled-reader"}, fmt.Sprintf("Server.WriteTimeout is 2 s; the client read 2 bytes, paused 120 ms and read on: it received %d bytes % x, want both replies complete (%d bytes)", len(all), head(all), len(whole)))
		}
		return
	}
	if bytes.HasPrefix(want1, all) || bytes.Equal(all, whole) {
		return
	}
	r.Violate(c, "reply-after-torn-reply", mon.Attrs{"where": "stalled-reader"}, fmt.Sprintf("the client read 2 bytes of a %d-byte reply, stalled %v (write timeout 150 ms) and came back: the connection then delivered % x - not a prefix of the first reply and not the two complete replies", len(want1), stall, head(all)))
}

// runStream: k frames that each call for exactly one reply, concatenated and cut at PRNG positions (next request sent
// early, several requests in one read) through ONE assembler; the k-th reply must answer the k-th request.
func runStream(c *Case, r *mon.Rec, rng *rand.Rand) {
	var frames []frame
	var all []byte
	used := map[uint16]bool{}
	for len(frames) < c.N {
		f := mkFrame(rng, []string{"valid", "valid", "unsupported", "out-of-range"}[rng.Intn(4)], 0)
		if used[f.tid] {
			continue
		}
		used[f.tid] = true
		f.mode = "dev"
		if f.class == "valid" {
			f.mode = c.Mode
		}
		frames = append(frames, f)
		all = append(all, f.b...)
	}
	// half of the streams end with bytes that are not Modbus TCP at all (the client's next write was garbage and was
	// coalesced with its requests): the requests before it were complete and are still owed their own replies, in order
	garbage := ""
	if rng.Intn(2) == 0 {
		g := specref.Frame(specref.TCP, uint16(rng.Intn(65536)), libx.U8(rng), []byte{3, 0, 1, 0, 1})
		switch garbage = []string{"protocol-id", "mbap-length", "function-0", "huge-length"}[rng.Intn(4)]; garbage {
		case "huge-length":
			// a header that announces 65 531..65 535 more bytes (never 65 530: a server that mis-sizes that one loops for
			// ever): an incomplete frame - the server waits for the rest and sends nothing for it
			g[4], g[5] = 0xFF, byte(0xFB+rng.Intn(5))
		case "protocol-id":
			g[2+rng.Intn(2)] = byte(1 + rng.Intn(255))
		case "mbap-length":
			g[4], g[5] = 0, byte(rng.Intn(3))
		case "function-0":
			g[7] = 0
		}
		all = append(all, g...)
		r.Cover("stream-garbage-tail", garbage)
	}
	var cuts []int
	p := 0
	for p < len(all)-1 {
		p += 1 + rng.Intn(1+[]int{4, 14, 40, len(all)}[rng.Intn(4)])
		if p < len(all) {
			cuts = append(cuts, p)
		}
	}
	modes := map[uint16]string{}
	for _, f := range frames {
		modes[f.tid] = f.mode
	}
	dev := simdev.New(uint64(c.Seed), "srv")
	outs, _, ptxt := srvx.Feed(handler(dev, func(tid uint16) string { return modes[tid] }), srvx.Split(all, cuts))
	if ptxt != "" {
		r.Violate(c, "assembler-panics", mon.Attrs{"class": "stream", "mode": c.Mode}, ptxt)
		return
	}
	var out []byte
	for _, o := range outs {
		out = append(out, o...)
	}
	ref := simdev.New(uint64(c.Seed), "srv")
	for k, f := range frames {
		var want []byte
		if f.class == "valid" && isDev(f.mode) {
			want = ref.Serve(specref.TCP, f.b)
		}
		if len(out) < 9 {
			r.Violate(c, "no-reply", mon.Attrs{"where": "stream", "class": f.class, "mode": f.mode}, fmt.Sprintf("stream of %d requests cut at %v: no reply for request %d (%s fc %d) % x; remaining output % x", len(frames), cuts, k, f.class, f.fc, head(f.b), out))
			return
		}
		n := 6 + int(out[4])<<8 + int(out[5])
		if n < 9 || n > len(out) {
			n = len(out)
		}
		checkReply(c, r, f, out[:n], want, "stream")
		out = out[n:]
	}
	if len(out) > 0 && (garbage == "" || garbage == "huge-length") {
		r.Violate(c, "surplus-reply-bytes", mon.Attrs{"where": "stream"}, fmt.Sprintf("% x", head(out)))
	}
	// a connection that starts with eight bytes that are not Modbus TCP (a port scanner, an HTTP probe) and then carries
	// a valid request in its next read: whatever the server says to the first, the request is answered
	vf := mkFrame(rng, "valid", 3)
	vf.mode = "dev"
	hdr := []byte{byte(rng.Intn(256)), byte(rng.Intn(256)), 0, 0, 0, 6, byte(rng.Intn(256)), 3}
	switch rng.Intn(3) {
	case 0:
		hdr[2+rng.Intn(2)] = byte(1 + rng.Intn(255)) // protocol id
	case 1:
		hdr[4], hdr[5] = 0, byte(rng.Intn(2)) // length field below the minimum
	default:
		hdr[7] = 0 // function code 0
	}
	dev2 := simdev.New(uint64(c.Seed)^0x51, "srv")
	outs2, _, ptxt2 := srvx.Feed(handler(dev2, func(uint16) string { return "dev" }), [][]byte{hdr, vf.b})
	r.Eval(1)
	if ptxt2 != "" {
		r.Violate(c, "assembler-panics", mon.Attrs{"class": "not-modbus-then-valid", "mode": "dev"}, ptxt2)
		return
	}
	want2 := simdev.New(uint64(c.Seed)^0x51, "srv").Serve(specref.TCP, vf.b)
	var got2 []byte
	if len(outs2) == 2 {
		got2 = outs2[1]
	}
	if !bytes.Equal(got2, want2) {
		r.Violate(c, "no-reply", mon.Attrs{"where": "after-not-modbus-header", "class": "valid", "mode": "dev"}, fmt.Sprintf("first read: eight bytes that are not Modbus TCP (% x); second read: the valid request % x: the second read produced % x, want % x", hdr, head(vf.b), head(got2), head(want2)))
	}
}

// one: layer A, a frame fed whole (and also as two segments) to a fresh assembler.
func one(c *Case, r *mon.Rec, rng *rand.Rand, f frame) {
	seed := uint64(c.Seed) ^ uint64(f.tid)
	var ref []byte
	if f.class == "valid" {
		ref = simdev.New(seed, "srv").Serve(specref.TCP, f.b)
	}
	for _, cuts := range [][]int{nil, {8 + rng.Intn(max(1, len(f.b)-8))}} {
		dev := simdev.New(seed, "srv")
		outs, _, ptxt := srvx.Feed(handler(dev, func(uint16) string { return f.mode }), srvx.Split(f.b, cuts))
		if ptxt != "" {
			r.Violate(c, "assembler-panics", mon.Attrs{"class": f.class, "mode": f.mode}, fmt.Sprintf("frame % x: %s", head(f.b), ptxt))
			return
		}
		var reply []byte
		for _, o := range outs {
			reply = append(reply, o...)
		}
		checkReply(c, r, f, reply, ref, "assembler")
	}
}

// runSeq: layer B fault sequence with a control connection.
func runSeq(c *Case, r *mon.Rec, rng *rand.Rand) {
	dev := simdev.New(uint64(c.Seed), "srv")
	modes := map[uint16]string{}
	l := srvx.NewMemListener()
	// every fourth sequence runs with a 300 ms write timeout and may draw the "slow" handler mode (400 ms), the others use
	// 2 s and never draw it: a write timeout of a few hundred milliseconds is already within reach of scheduling noise on
	// a heavily loaded machine
	slowCase := c.Seed%4 == 0
	s := &server.Server{OnErrorFunc: func(error) {}, WriteTimeout: 2 * time.Second}
	if slowCase {
		s.WriteTimeout = 300 * time.Millisecond
	}
	if c.Seed%2 == 0 {
		s.OnErrorFunc = nil // default configuration: the server logs connection errors itself
	}
	ctx, cancel := context.WithCancel(context.Background())
	served := make(chan error, 1)
	go func() {
		served <- s.Serve(ctx, l, handler(dev, func(tid uint16) string { return modes[tid] }))
	}()
	defer func() {
		sctx, sc := context.WithTimeout(context.Background(), 3*time.Second)
		_ = s.Shutdown(sctx)
		sc()
		cancel()
		select {
		case <-served:
		case <-time.After(3 * time.Second):
		}
	}()
	// all frames and their handler modes are fixed before any is sent (the handler only reads the map)
	type step struct {
		f       frame
		control bool
	}
	var steps []step
	used := map[uint16]bool{}
	for i := 0; i < c.N; i++ {
		var f frame
		for {
			f = mkFrame(rng, classes[rng.Intn(len(classes))], 0)
			if !used[f.tid] {
				break
			}
		}
		used[f.tid] = true
		f.mode = "dev"
		if f.class == "valid" {
			f.mode = []string{"dev", "dev", "typed-error", "generic-error", "panic-string", "panic-error", "panic-nilmap", "panic-goexit", "mutate-then-error", "foreign-exception", "lib-response", "lib-response", "slow"}[rng.Intn(map[bool]int{true: 13, false: 12}[slowCase])]
		}
		modes[f.tid] = f.mode
		steps = append(steps, step{f: f})
		if rng.Intn(2) == 0 {
			var cf frame
			for {
				cf = mkFrame(rng, "valid", 0)
				if !used[cf.tid] {
					break
				}
			}
			used[cf.tid] = true
			cf.mode = "dev"
			modes[cf.tid] = "dev"
			steps = append(steps, step{f: cf, control: true})
		}
	}
	dial := func() (conn interface {
		Write([]byte) (int, error)
		Close() error
	}, raw any) {
		cli, _, err := l.Dial(2 * time.Second)
		if err != nil {
			return nil, err
		}
		return cli, cli
	}
	_ = dial
	fault, faultRC, err := l.Dial(2 * time.Second)
	if err != nil {
		r.Inconclusive("cannot connect: " + err.Error())
		return
	}
	control, _, err := l.Dial(2 * time.Second)
	if err != nil {
		r.Inconclusive("cannot connect control: " + err.Error())
		return
	}
	defer func() {
		if fault != nil {
			fault.Close()
		}
		control.Close()
	}()
	refDev := simdev.New(uint64(c.Seed), "srv") // reference run of the same request order (writes change memory)
	for i, st := range steps {
		f := st.f
		conn := fault
		where := "fault-connection"
		if st.control {
			conn, where = control, "control-connection"
		}
		if conn == nil {
			continue
		}
		if !st.control && !isPanicMode(f.mode) && rng.Intn(6) == 0 {
			// the client gives up in the middle of a frame: connection abandoned with bytes pending in its assembler;
			// the connections that follow (several, so that any recycled per-connection state is met again) start clean
			junk := mkFrame(rng, "valid", 0)
			_, _ = conn.Write(junk.b[:1+rng.Intn(len(junk.b)-1)])
			conn.Close()
			time.Sleep(2 * time.Millisecond)
			for k := 0; k < 3; k++ {
				nc, _, derr := l.Dial(2 * time.Second)
				if derr != nil {
					r.Violate(c, "server-unreachable-after-panic", mon.Attrs{"mode": "abandoned-partial-frame"}, derr.Error())
					fault = nil
					return
				}
				pf := mkFrame(rng, "valid", 3)
				pf.mode = "dev"
				for used[pf.tid] {
					pf = mkFrame(rng, "valid", 3)
					pf.mode = "dev"
				}
				used[pf.tid] = true
				_ = nc.SetWriteDeadline(time.Now().Add(2 * time.Second))
				if _, werr := nc.Write(pf.b); werr != nil {
					r.Violate(c, "connection-lost", mon.Attrs{"where": "fresh-connection"}, werr.Error())
					return
				}
				checkReply(c, r, pf, readReply(nc), refDev.Serve(specref.TCP, pf.b), "fresh-connection-after-abandoned-one")
				if k < 2 {
					nc.Close()
				} else {
					fault = nc
					faultRC = nil
					conn = nc
				}
			}
		}
		_ = conn.SetWriteDeadline(time.Now().Add(2 * time.Second))
		rest := f.b
		if !st.control && f.class == "valid" && len(f.b) > 9 && rng.Intn(3) == 0 && i+1 < len(steps) && steps[i+1].control {
			// leave an incomplete frame pending on this connection while the control connection does a whole exchange
			k := 1 + rng.Intn(len(f.b)-1)
			if _, err := conn.Write(f.b[:k]); err != nil {
				r.Violate(c, "connection-lost", mon.Attrs{"where": where}, fmt.Sprintf("step %d: write of a %d-byte prefix failed: %v", i, k, err))
				return
			}
			rest = f.b[k:]
			cf := steps[i+1].f
			steps[i+1].f.class = "done"
			_ = control.SetWriteDeadline(time.Now().Add(2 * time.Second))
			if _, err := control.Write(cf.b); err != nil {
				r.Violate(c, "connection-lost", mon.Attrs{"where": "control-connection"}, fmt.Sprintf("step %d: %v", i, err))
				return
			}
			crep := readReply(control)
			checkReply(c, r, cf, crep, nil, "control-connection-while-partial-frame-pending")
		}
		if f.class == "done" {
			continue
		}
		if _, err := conn.Write(rest); err != nil {
			r.Violate(c, "connection-lost", mon.Attrs{"where": where}, fmt.Sprintf("step %d: write of %s frame failed: %v", i, f.class, err))
			return
		}
		isPanic := len(f.mode) > 5 && f.mode[:5] == "panic"
		var ref []byte
		if f.class == "valid" && isDev(f.mode) {
			ref = refDev.Serve(specref.TCP, f.b)
		}
		if isPanic {
			// the server recovers, closes this connection and sends nothing
			got := srvx.Drain(conn, 400*time.Millisecond)
			r.Eval(1)
			if len(got) > 0 {
				r.Violate(c, "reply-after-handler-panic", mon.Attrs{"mode": f.mode}, fmt.Sprintf("step %d: % x", i, head(got)))
			}
			if faultRC != nil && conn == fault {
				closed := false
				for t := time.Now(); time.Since(t) < 2*time.Second; time.Sleep(time.Millisecond) {
					if faultRC.ServerCloses() > 0 {
						closed = true
						break
					}
				}
				if !closed {
					r.Violate(c, "connection-left-open-after-handler-panic", mon.Attrs{"mode": f.mode}, fmt.Sprintf("step %d: the handler's goroutine ended (%s) without a reply; 2 s later the server had still not closed that connection", i, f.mode))
				}
			}
			conn.Close()
			fault, faultRC, err = l.Dial(2 * time.Second) // a new connection must still be served
			if err != nil {
				r.Violate(c, "server-unreachable-after-panic", mon.Attrs{"mode": f.mode}, fmt.Sprintf("step %d: %v", i, err))
				fault = nil
				return
			}
			r.Distinct(mon.Mix(77, mon.HashS(f.mode), uint64(f.fc)))
			continue
		}
		rep, rerr := readReplyErr(conn)
		if rerr != nil && len(rep) == 0 {
			a := mon.Attrs{"where": where, "class": f.class, "mode": f.mode}
			r.Violate(c, "no-reply", a, fmt.Sprintf("step %d on the %s: %s frame (fc %d, handler %s) % x got no reply: %v", i, where, f.class, f.fc, f.mode, head(f.b), rerr))
			return
		}
		checkReply(c, r, f, rep, ref, where)
	}
	r.Sample(map[string]any{"kind": "sequence", "steps": len(steps)})
}

// Package c14: one client instance can be shared by goroutines without interleaving or races.
package c14

import (
	"bytes"
	"context"
	"errors"
	"fmt"
	"math/rand"
	"net"
	"os"
	"runtime"
	"sync"
	"sync/atomic"
	"time"

	modbus "github.com/aldas/go-modbus-client"
	"github.com/aldas/go-modbus-client/packet"
	"github.com/anishathalye/porcupine"
	"verif/clientx"
	"verif/libx"
	"verif/mon"
	"verif/simdev"
	"verif/specref"
)

type Case struct {
	Client int    `json:"client"`
	Mode   string `json:"mode"` // plain | cancel | lifecycle | linear
	G      int    `json:"g"`    // goroutines
	M      int    `json:"m"`    // calls per goroutine
	Seed   int64  `json:"seed"`
	Delay  int    `json:"delay"` // 0 none, 1 yields, 2 short sleeps in the transport
	Block  bool   `json:"block"` // serial: empty port reads block for a few milliseconds
}

func Spec() *mon.Spec {
	return &mon.Spec{
		ID:      "C14",
		RuleAdd: "Later additions (rounds 4-17): a transport that honours write deadlines; slow devices; reconnect without Close; serial ports with Flush; Close in the middle of an exchange; a caller whose request panics inside Do; hook calls grouped per exchange; closed sockets reported as net.ErrClosed; a Connect whose dial fails (nil and typed-nil results) while callers are active, with unsynchronised dial bookkeeping; replies in two bursts with an empty read between; a unit-0 write among the calls.",
		Level:   "exploration",
		Rule:    "built with -race. N in {2,4,8,32} goroutines x M calls share ONE Client (TCP / RTU framing) or SerialClient whose transport is a harness device (reference decoder + simulated memory) that answers each request in arrival order, with PRNG yields/sleeps inside Write and Read and a 'thinking time' before a reply becomes readable. Monitors: (1) exchange-overlap detector in the transport: a Write while the previous reply is unconsumed and its owner neither cancelled nor returned, or a Write that is not exactly one well-formed request frame; (2) reply matching: every call has a unique (address, quantity[, tid]) and the device memory is a hash of the address, verified at return and again after later calls (aliasing of shared buffers); wire sequence = each issued request exactly once; (3) porcupine linearizability check of FC6 writes (unique values) / FC3 reads on 4 registers, partitioned by register; (3b) slow-device cases (40 ms per reply, 8 callers, write timeout 250 ms, a transport that fails writes issued after their deadline) and reconnect cases (one request answered 300 ms late against a 100 ms read timeout, then Connect without Close on a device that does not flush unread replies: every later caller must still get its own reply); (4) Go race detector reports and panics, incl. goroutines calling Close/Connect concurrently and callers whose context is cancelled while they wait. distinct key = hash of the caller-id sequence seen on the wire (interleavings_distinct).",
		Assumptions: []string{"FC23 is left out (its expected-length formula times out on every reply, C07 known finding)", "serial client histories are short (30 ms sleep inside every Do)",
			"after a cancelled caller abandons its reply the device flushes it (what happens to the next caller after a cancellation is outside this property)"},
		NewCase:      func() any { return &Case{} },
		Gen:          gen,
		Run:          run,
		Workers:      4,
		Race:         true,
		Isolated:     true, // a fatal runtime error (e.g. "sync: Unlock of unlocked RWMutex") must identify its case
		BatchSize:    4,
		ChildWorkers: 2,
		SelfTest:     specref.SelfTest,
		MinDistinct:  10,
	}
}

func gen(g *mon.Gen) {
	rng := g.Rng
	reps := g.Pick(3, 200)
	i := 0
	for rep := 0; rep < reps; rep++ {
		for client := 0; client < 3; client++ {
			for _, mode := range []string{"plain", "cancel", "lifecycle", "linear"} {
				gs := []int{2, 4, 8, 32}[rng.Intn(4)]
				m := 5 + rng.Intn(40)
				if client == clientx.Serial {
					gs = []int{2, 4, 8}[rng.Intn(3)]
					m = 2 + rng.Intn(4)
				}
				if gs == 32 {
					m = 5 + rng.Intn(10)
				}
				// Block alternates so that every serial mode is run both against a port whose empty reads return at once
				// and one whose reads really block for a few milliseconds
				g.Emit(&Case{Client: client, Mode: mode, G: gs, M: m, Seed: rng.Int63(), Delay: i % 3, Block: rep%2 == 0})
				i++
			}
			if client == clientx.Serial && (rep < 2 || g.Thorough() && rep%10 == 0) {
				g.Emit(&Case{Client: client, Mode: "plain", G: 4, M: 2, Seed: rng.Int63(), Delay: 4, Block: rep%2 == 0})
			}
			if client != clientx.Serial && (rep < 2 || g.Thorough() && rep%10 == 0) {
				// a crowd: many callers and no transport delay - the order in which callers arrive and the order in which
				// they are served differ as often as the scheduler allows
				g.Emit(&Case{Client: client, Mode: "plain", G: 64, M: 40, Seed: rng.Int63(), Delay: 0})
				g.Emit(&Case{Client: client, Mode: "plain", G: 24, M: 100, Seed: rng.Int63(), Delay: 0})
				g.Emit(&Case{Client: client, Mode: "linear", G: 16, M: 12, Seed: rng.Int63(), Delay: 0})
				g.Emit(&Case{Client: client, Mode: "plain", G: 8, M: 2, Seed: rng.Int63(), Delay: 3})
				g.Emit(&Case{Client: client, Mode: "reconnect", G: 4, M: 3, Seed: rng.Int63(), Delay: rep % 2})
			}
		}
	}
}

// ---- device transport ----

type owner struct {
	g, k      int
	noReply   bool // the device never answers this request (absent unit): its caller polls until it is cancelled
	late      bool // the device answers this request only after 300 ms (the caller's read timeout is 100 ms)
	cancel    func()
	polls     int
	cancelled atomic.Bool
	returned  atomic.Bool
}

type devConn struct {
	mu      sync.Mutex
	fr      specref.Framing
	dev     *simdev.Device
	delay   int
	rng     *rand.Rand
	pending []byte
	readyAt int // reads to refuse before the reply becomes readable ("thinking time")
	owner   *owner
	owners  func(q specref.Req) *owner
	wire    []int // caller ids in arrival order
	viol    []string
	closed  bool
	writes  int
	// blocking: Read blocks for a few milliseconds when nothing is readable (serial-port like)
	blocking bool
	// wdl: the write deadline the client set; like a real connection, a Write after it has passed fails with a timeout
	wdl time.Time
	// readyTime (delay class 3, a slow device; late owners): the reply becomes readable only at this moment
	readyTime time.Time
	// noflush: a reply nobody read stays in the connection, in front of the next one (an in-order device behind a socket)
	noflush bool
	// split > 0: the reply comes in two bursts, the first one split bytes long, with one empty read between them (a
	// serial port reports that as 0 bytes and no error, a socket as a timed-out read); gap counts the empty reads owed
	split, gap int
	serial     bool
}

func (d *devConn) jitter() {
	switch d.delay {
	case 1:
		runtime.Gosched()
	case 2:
		d.mu.Lock()
		n := d.rng.Intn(6)
		d.mu.Unlock()
		if n == 0 {
			time.Sleep(200 * time.Microsecond)
		} else if n < 3 {
			runtime.Gosched()
		}
	}
}

func (d *devConn) Write(p []byte) (int, error) {
	d.jitter()
	d.mu.Lock()
	defer d.mu.Unlock()
	if d.closed {
		return 0, errConnClosed
	}
	if !d.wdl.IsZero() && time.Now().After(d.wdl) {
		return 0, os.ErrDeadlineExceeded
	}
	d.writes++
	q, err := specref.DecodeReq(d.fr, p)
	if err != nil {
		d.viol = append(d.viol, fmt.Sprintf("garbled-frame: a Write carried % x which is not exactly one well-formed request frame (%v)", head(p), err))
		return len(p), nil
	}
	ow := d.owners(q)
	var stale []byte
	if len(d.pending) > 0 && d.owner != nil && d.noflush && d.owner.returned.Load() {
		stale = d.pending
	}
	if len(d.pending) > 0 && d.owner != nil {
		if !d.owner.cancelled.Load() && !d.owner.returned.Load() {
			d.viol = append(d.viol, fmt.Sprintf("exchange-overlap: request of caller %d.%d written while the reply to caller %d.%d was still outstanding (%d unread bytes) and that caller was neither cancelled nor back", ow.g, ow.k, d.owner.g, d.owner.k, len(d.pending)))
		}
		d.pending = nil // device flushes an abandoned reply
	}
	d.owner = ow
	if ow != nil {
		d.wire = append(d.wire, ow.g)
	}
	d.pending = append(stale, d.dev.Handle(q).Encode(d.fr)...)
	d.readyAt = 0
	d.readyTime = time.Time{}
	if ow != nil && ow.late {
		d.readyTime = time.Now().Add(300 * time.Millisecond)
	}
	if d.delay > 0 {
		d.readyAt = d.rng.Intn(4)
	}
	if d.delay == 3 {
		d.readyTime = time.Now().Add(40 * time.Millisecond)
	}
	if d.delay == 4 && d.writes == 1 {
		// the first answer of this (serial) device takes 250 ms: slower than half the client's read timeout (400 ms in
		// these cases), faster than the whole of it - a slow answer is an answer, the request goes on the line once
		d.readyTime = time.Now().Add(250 * time.Millisecond)
	}
	if ow != nil && ow.noReply {
		d.readyAt = 1 << 30
	}
	d.split, d.gap = 0, 0
	if d.delay > 0 && len(stale) == 0 && len(d.pending) > 5 && d.rng.Intn(3) == 0 {
		// (a first burst of 1..3 bytes: shorter than any expected reply length the library computes, so the known finding
		// about expected lengths that are a byte or two short does not come into play)
		d.split = 1 + d.rng.Intn(3)
	}
	return len(p), nil
}

func (d *devConn) Read(p []byte) (int, error) {
	d.jitter()
	d.mu.Lock()
	defer d.mu.Unlock()
	if d.closed {
		return 0, errConnClosed
	}
	if len(d.pending) > 0 && time.Now().Before(d.readyTime) {
		d.mu.Unlock()
		time.Sleep(time.Millisecond) // the device is still working on it; do not let the polling client burn a core
		d.mu.Lock()
		return 0, os.ErrDeadlineExceeded
	}
	if len(d.pending) == 0 || d.readyAt > 0 {
		if d.readyAt > 0 && len(d.pending) > 0 {
			d.readyAt--
		}
		if ow := d.owner; ow != nil && ow.noReply && ow.cancel != nil {
			ow.polls++
			if ow.polls == 2 { // the caller is polling for a reply that will never come: cancel it while this Read is pending
				ow.cancelled.Store(true)
				ow.cancel()
			}
		}
		if d.blocking { // like a serial port with a per-read timeout: an empty read really blocks for a while
			d.mu.Unlock()
			time.Sleep(3 * time.Millisecond)
			d.mu.Lock()
			if d.closed {
				return 0, errConnClosed
			}
			if len(d.pending) > 0 && d.readyAt == 0 {
				n := copy(p, d.pending)
				d.pending = d.pending[n:]
				return n, nil
			}
		}
		return 0, os.ErrDeadlineExceeded
	}
	if d.gap > 0 {
		d.gap--
		if d.serial {
			return 0, nil
		}
		return 0, os.ErrDeadlineExceeded
	}
	if d.split > 0 && d.split < len(d.pending) && d.split <= len(p) {
		n := copy(p, d.pending[:d.split])
		d.pending = d.pending[n:]
		d.split, d.gap = 0, 1
		return n, nil
	}
	n := copy(p, d.pending)
	d.pending = d.pending[n:]
	return n, nil
}

func (d *devConn) Close() error {
	d.mu.Lock()
	d.closed = true
	d.mu.Unlock()
	return nil
}

// groupHooks records the order of hook calls on a shared client. The hooks carry no call identifier, so a consumer can
// only attribute them if the calls of one exchange arrive as one group: write, reads, parse - never interleaved with
// another exchange's.
type groupHooks struct {
	mu  sync.Mutex
	seq []byte // 'W', 'R', 'P'
}

func (h *groupHooks) add(k byte) {
	h.mu.Lock()
	if len(h.seq) < 1<<16 {
		h.seq = append(h.seq, k)
	}
	h.mu.Unlock()
}
func (h *groupHooks) BeforeWrite([]byte)               { h.add('W') }
func (h *groupHooks) AfterEachRead([]byte, int, error) { h.add('R') }
func (h *groupHooks) BeforeParse([]byte) {
	time.Sleep(150 * time.Microsecond) // a hook that logs takes a moment; its record is complete when it returns
	h.add('P')
}

// errConnClosed is what a closed socket reports: net.ErrClosed inside an *net.OpError.
var errConnClosed error = &net.OpError{Op: "read", Net: "verif", Err: net.ErrClosed}

// brokenRequest is an application-defined request whose encoding panics.
type brokenRequest struct{}

func (brokenRequest) FunctionCode() uint8         { return 3 }
func (brokenRequest) Bytes() []byte               { panic("verif: application request type with a broken Bytes()") }
func (brokenRequest) ExpectedResponseLength() int { return 7 }

func hooksOrNil(h *groupHooks) modbus.ClientHooks {
	if h == nil {
		return nil
	}
	return h
}

// flushPort is the serial port handed to half of the serial clients: a devConn that also implements the optional
// Flush. The client may flush after its own exchange; a Flush that arrives while another caller's reply is still
// outstanding means somebody touched the port without holding the client's lock.
type flushPort struct{ *devConn }

func (p flushPort) Flush() error {
	d := p.devConn
	d.mu.Lock()
	defer d.mu.Unlock()
	if len(d.pending) > 0 && d.owner != nil && !d.owner.cancelled.Load() && !d.owner.returned.Load() {
		d.viol = append(d.viol, fmt.Sprintf("exchange-overlap: the port was flushed while the reply to caller %d.%d was outstanding (%d unread bytes discarded) and that caller was neither cancelled nor back", d.owner.g, d.owner.k, len(d.pending)))
	}
	d.pending = nil
	return nil
}

type addrT string

func (a addrT) Network() string                      { return "verif" }
func (a addrT) String() string                       { return string(a) }
func (d *devConn) LocalAddr() net.Addr               { return addrT("l") }
func (d *devConn) RemoteAddr() net.Addr              { return addrT("r") }
func (d *devConn) SetDeadline(t time.Time) error     { return nil }
func (d *devConn) SetReadDeadline(t time.Time) error { return nil }
func (d *devConn) SetWriteDeadline(t time.Time) error {
	d.mu.Lock()
	d.wdl = t
	d.mu.Unlock()
	return nil
}

func head(b []byte) []byte {
	if len(b) > 24 {
		return b[:24]
	}
	return b
}

// ---- workload ----

type doer interface {
	Do(ctx context.Context, req packet.Request) (packet.Response, error)
	Close() error
}

type call struct {
	ow   *owner
	q    specref.Req
	resp packet.Response
	want []byte // expected reply frame
}

func run(ci any, r *mon.Rec) {
	c := ci.(*Case)
	fr := clientx.FramingOf(c.Client)
	dev := simdev.New(uint64(c.Seed), "dev")
	owners := map[uint32]*owner{} // (addr<<16|qty or value) -> owner
	var omu sync.Mutex
	lookup := func(q specref.Req) *owner {
		omu.Lock()
		defer omu.Unlock()
		return owners[uint32(q.Addr)<<16|uint32(q.Qty)|uint32(q.Value)]
	}
	var conns []*devConn
	var cmu sync.Mutex
	newConn := func() *devConn {
		cmu.Lock()
		defer cmu.Unlock()
		d := &devConn{fr: fr, dev: dev, delay: c.Delay, rng: rand.New(rand.NewSource(c.Seed + int64(len(conns)))), owners: lookup,
			blocking: c.Client == clientx.Serial && c.Block, noflush: c.Mode == "reconnect", serial: c.Client == clientx.Serial}
		conns = append(conns, d)
		return d
	}
	var cl doer
	var connect func() error
	var failDial atomic.Bool
	var failedDials atomic.Int64
	var gh *groupHooks
	if c.Mode == "plain" && (c.Seed%2 == 1 || c.Client == clientx.Serial) {
		gh = &groupHooks{}
	}
	// slow-device cases: replies take 40 ms each, so the callers queueing on the shared client wait longer than the write
	// timeout (250 ms) before their turn comes; time spent waiting for the client is not time spent writing
	wt := time.Duration(0)
	if c.Delay == 3 {
		wt = 250 * time.Millisecond
	}
	switch c.Client {
	case clientx.TCP, clientx.RTUNet:
		rtc := 2 * time.Second
		if c.Mode == "reconnect" {
			rtc = 100 * time.Millisecond
		}
		dials := 0 // the application's own dial bookkeeping, unsynchronised: Connect calls on one client are carried out one at a time
		cfg := modbus.ClientConfig{ReadTimeout: rtc, WriteTimeout: wt, Hooks: hooksOrNil(gh), DialContextFunc: func(ctx context.Context, a string) (net.Conn, error) {
			dials++
			if failDial.Load() {
				if failedDials.Add(1)%2 == 1 {
					return nil, errors.New("verif: dial refused")
				}
				// the other way dial functions commonly report a failure: a nil pointer of their connection type and the error
				var none *devConn
				return none, errors.New("verif: dial refused")
			}
			return newConn(), nil
		}}
		var nc *modbus.Client
		if c.Client == clientx.TCP {
			nc = modbus.NewTCPClientWithConfig(cfg)
		} else {
			nc = modbus.NewRTUClientWithConfig(cfg)
		}
		connect = func() error { return nc.Connect(context.Background(), "dev:1") }
		_ = connect()
		cl = nc
	default:
		srt := 2 * time.Second
		if c.Delay == 4 {
			srt = 400 * time.Millisecond
		}
		sopts := []modbus.SerialClientOptionFunc{modbus.WithSerialReadTimeout(srt)}
		if gh != nil {
			sopts = append(sopts, modbus.WithSerialHooks(gh))
		}
		if c.Seed%2 == 0 || c.Mode == "lifecycle" {
			cl = modbus.NewSerialClient(flushPort{newConn()}, sopts...)
		} else {
			cl = modbus.NewSerialClient(newConn(), sopts...)
		}
	}
	a := mon.Attrs{"client": clientx.KindName(c.Client), "mode": c.Mode}
	ctxs := fmt.Sprintf("%s client, mode %s, %d goroutines x %d calls, transport delay class %d", clientx.KindName(c.Client), c.Mode, c.G, c.M, c.Delay)

	if c.Mode == "linear" {
		runLinear(c, r, cl, dev, fr, a, ctxs)
		finishConns(c, r, conns, a, ctxs, false)
		return
	}

	var wg sync.WaitGroup
	var vmu sync.Mutex
	var viols []string
	addViol := func(kind, s string) {
		vmu.Lock()
		viols = append(viols, kind+"\x00"+s)
		vmu.Unlock()
	}
	var okCalls, errCalls atomic.Int64
	stop := make(chan struct{})
	if c.Mode == "lifecycle" {
		for i := 0; i < 2; i++ {
			wg.Add(1)
			go func(i int) {
				defer wg.Done()
				lr := rand.New(rand.NewSource(c.Seed + int64(i)*77))
				if connect == nil {
					// a serial client cannot be reopened: let a few exchanges happen first, so that Close arrives while one is in flight
					need := 1 + lr.Intn(3)
					for t := 0; t < 20000; t++ {
						cmu.Lock()
						d0 := conns[0]
						cmu.Unlock()
						d0.mu.Lock()
						w, gone := d0.writes, d0.closed
						d0.mu.Unlock()
						if w >= need || gone { // (gone: the other closer was first - no further write will be counted)
							break
						}
						time.Sleep(100 * time.Microsecond)
					}
				}
				for {
					select {
					case <-stop:
						return
					default:
					}
					if p, txt := mon.Catch(func() {
						if lr.Intn(2) == 0 || connect == nil {
							_ = cl.Close()
							if connect != nil {
								_ = connect()
							}
						} else {
							_ = connect()
						}
					}); p {
						addViol("lifecycle-panics", txt)
						return
					}
					time.Sleep(time.Duration(50+lr.Intn(300)) * time.Microsecond)
				}
			}(i)
		}
	}
	if c.Mode == "reconnect" && connect != nil {
		// one request is answered too late (300 ms against a 100 ms read timeout) and its caller gives up; the application
		// recovers the way the API offers: it calls Connect again (no Close). The connection it works on afterwards must not
		// be the one that still holds the late reply - every later caller gets the reply to its own request
		q0 := specref.Req{FC: 3, Unit: 250, TID: 64000, Addr: 59999, Qty: 7}
		req0, _ := libx.NewRequest(fr, q0)
		ow0 := &owner{g: -1, late: true}
		omu.Lock()
		owners[uint32(q0.Addr)<<16|uint32(q0.Qty)] = ow0
		omu.Unlock()
		_, err0 := cl.Do(context.Background(), req0)
		ow0.returned.Store(true)
		r.Cover("reconnect", fmt.Sprintf("late request ended with error=%v", err0 != nil))
		if err := connect(); err != nil {
			r.Violate(c, "reconnect-fails", a, err.Error())
			return
		}
		time.Sleep(350 * time.Millisecond) // by now the late reply has arrived on the abandoned connection
	}
	if c.Mode == "plain" && connect != nil && c.Seed%3 == 0 {
		// one more goroutine calls Connect while the others use the client, and the dial fails (the standby address is
		// down): a Connect that did not connect changes nothing - the callers keep getting their replies
		wg.Add(1)
		go func() {
			defer wg.Done()
			lr := rand.New(rand.NewSource(c.Seed ^ 0x51ab))
			for i := 0; i < 2; i++ {
				time.Sleep(time.Duration(lr.Intn(800)) * time.Microsecond)
				failDial.Store(true)
				var err error
				if p, txt := mon.Catch(func() { err = connect() }); p {
					addViol("lifecycle-panics", "Connect with a failing dial: "+txt)
				}
				failDial.Store(false)
				r.Cover("plain", fmt.Sprintf("a Connect whose dial fails while callers are active (returned an error: %v)", err != nil))
			}
		}()
	}
	if c.Mode == "plain" || c.Mode == "lifecycle" {
		// one more user of the shared client whose call panics inside Do (an application-defined request type with a broken
		// Bytes(); the caller recovers, as a supervisor would): the others must neither notice nor be locked out
		wg.Add(1)
		go func() {
			defer wg.Done()
			lr := rand.New(rand.NewSource(c.Seed ^ 0x9a71c))
			for i := 0; i < 3; i++ {
				time.Sleep(time.Duration(lr.Intn(1500)) * time.Microsecond)
				mon.Catch(func() { _, _ = cl.Do(context.Background(), brokenRequest{}) })
			}
			r.Cover("plain", "a caller whose request panics inside Do")
		}()
	}
	var callers sync.WaitGroup
	for g := 0; g < c.G; g++ {
		callers.Add(1)
		go func(g int) {
			defer callers.Done()
			lr := rand.New(rand.NewSource(c.Seed ^ int64(g+1)*7919))
			var held []call
			verify := func(cs []call, when string) {
				for _, cc := range cs {
					if libx.IsNilValue(cc.resp) {
						continue
					}
					got := cc.resp.Bytes()
					if !bytes.Equal(got, cc.want) {
						addViol("reply-mismatch", fmt.Sprintf("caller %d.%d (%s): request %+v got reply % x, own reply is % x", cc.ow.g, cc.ow.k, when, short(cc.q), head(got), head(cc.want)))
					}
					// typed content, through the parsed value (aliasing of a shared buffer shows here)
					if rr, ok := cc.resp.(interface {
						AsRegisters(uint16) (*packet.Registers, error)
					}); ok && cc.q.FC <= 4 {
						regs, err := rr.AsRegisters(cc.q.Addr)
						if err == nil {
							v, _ := regs.Uint16(cc.q.Addr)
							if want := dev.Reg(cc.q.Unit, int(cc.q.FC)-1, int(cc.q.Addr)); v != want {
								addViol("reply-mismatch", fmt.Sprintf("caller %d.%d (%s): register %d decoded as %d, device holds %d", cc.ow.g, cc.ow.k, when, cc.q.Addr, v, want))
							}
						}
					}
				}
			}
			for k := 0; k < c.M; k++ {
				fc := []uint8{3, 4, 3, 1, 2}[lr.Intn(5)]
				addr := uint16((g*c.M + k) * 131 % 60000)
				qty := uint16(1 + (g*c.M+k)%100)
				q := specref.Req{FC: fc, Unit: uint8(1 + g%200), TID: uint16(g*1000 + k + 1), Addr: addr, Qty: qty}
				if c.Mode == "plain" && g == 0 && k%3 == 2 {
					// a write addressed to unit 0 (the device on this line answers it like any other): its reply belongs to
					// this caller and to nobody after it
					q = specref.Req{FC: 6, Unit: 0, TID: q.TID, Addr: addr, Value: uint16(40000 + k)}
				}
				req, err := libx.NewRequest(fr, q)
				if err != nil {
					addViol("constructor-refuses-legal", err.Error())
					return
				}
				ow := &owner{g: g, k: k}
				willCancel := c.Mode == "cancel" && lr.Intn(3) == 0
				// half of the callers that will be cancelled talk to a unit that never answers: they are cancelled while
				// they poll the transport (after the serial client's 30 ms settle time), not while they queue for the lock
				ow.noReply = willCancel && lr.Intn(2) == 0
				if ow.noReply {
					ow.cancelled.Store(false)
				}
				omu.Lock()
				owners[uint32(q.Addr)<<16|uint32(q.Qty)|uint32(q.Value)] = ow
				omu.Unlock()
				ctx, cancel := context.WithCancel(context.Background())
				if ow.noReply {
					ow.cancel = cancel // cancelled by the transport at the caller's second poll
				} else if willCancel {
					d := time.Duration(lr.Intn(400)) * time.Microsecond
					go func() {
						time.Sleep(d)
						ow.cancelled.Store(true)
						cancel()
					}()
				}
				var resp packet.Response
				var derr error
				if p, txt := mon.Catch(func() { resp, derr = cl.Do(ctx, req) }); p {
					addViol("do-panics", txt)
					cancel()
					return
				}
				ow.returned.Store(true)
				cancel()
				if derr != nil {
					errCalls.Add(1)
					if c.Mode == "plain" || c.Mode == "reconnect" || (c.Mode == "cancel" && !ow.cancelled.Load()) {
						addViol("call-fails", fmt.Sprintf("caller %d.%d (its context was not cancelled; the device answers every request): %v", g, k, derr))
					}
					continue
				}
				okCalls.Add(1)
				if libx.IsNilValue(resp) {
					addViol("call-returns-nothing", fmt.Sprintf("caller %d.%d: request %+v returned neither a response nor an error", g, k, short(q)))
					continue
				}
				cc := call{ow: ow, q: q, resp: resp, want: dev.Handle(q).Encode(fr)}
				verify([]call{cc}, "at return")
				held = append(held, cc)
				if len(held) >= 3 {
					if lr.Intn(2) == 0 {
						time.Sleep(100 * time.Microsecond)
					}
					verify(held, "re-checked after later calls")
					held = held[:0]
				}
			}
			verify(held, "re-checked at the end")
		}(g)
	}
	// watchdog: every Do against this transport completes within microseconds to a few client timeouts; callers still
	// blocked after 45 s are reported with the goroutine dump (e.g. a lock that is never released)
	allDone := make(chan struct{})
	go func() { callers.Wait(); close(allDone) }()
	select {
	case <-allDone:
	case <-time.After(45 * time.Second):
		buf := make([]byte, 1<<16)
		n := runtime.Stack(buf, true)
		select {
		case <-allDone:
		case <-time.After(15 * time.Second):
			close(stop)
			r.Violate(c, "calls-never-return", a, fmt.Sprintf("%s: after 60 s %d calls had completed and the remaining callers were still blocked in Do; goroutines:\n%s", ctxs, okCalls.Load()+errCalls.Load(), string(buf[:n])))
			finishConns(c, r, conns, a, ctxs, false)
			return
		}
	}
	close(stop)
	if !waitBounded(&wg, 60*time.Second) {
		// (the helpers of the case - the goroutine that closes and reconnects, the one whose request panics inside Do -
		// use the same client: one of them still blocked a minute after the callers are done is the same finding)
		buf := make([]byte, 1<<16)
		n := runtime.Stack(buf, true)
		r.Violate(c, "calls-never-return", a, fmt.Sprintf("%s: all callers are done (%d calls) and 60 s later a helper goroutine of the case is still blocked in the client; goroutines:\n%s", ctxs, okCalls.Load()+errCalls.Load(), string(buf[:n])))
		finishConns(c, r, conns, a, ctxs, false)
		return
	}
	if p, txt := mon.Catch(func() { _ = cl.Close() }); p {
		addViol("lifecycle-panics", "Close at the end of the case: "+txt)
	}
	r.Eval(int(okCalls.Load() + errCalls.Load()))
	r.NoteAdd("calls_ok", okCalls.Load())
	r.NoteAdd("calls_err_tolerated", errCalls.Load())
	for _, v := range dedupe(viols) {
		kind, detail := split(v)
		r.Violate(c, kind, a, ctxs+": "+detail)
	}
	if gh != nil {
		// every call of a plain case succeeds, so the hook calls must read (W R+ P)*
		gh.mu.Lock()
		state := byte('P')
		for i, k := range gh.seq {
			ok := (k == 'W' && state == 'P') || (k == 'R' && (state == 'W' || state == 'R')) || (k == 'P' && state == 'R')
			if !ok {
				lo, hi := max(0, i-12), min(len(gh.seq), i+6)
				r.Violate(c, "hook-calls-interleaved", a, fmt.Sprintf("%s: hook call #%d is %q after %q; around it: %s (W=BeforeWrite R=AfterEachRead P=BeforeParse): the calls of two exchanges are interleaved", ctxs, i, k, state, gh.seq[lo:hi]))
				break
			}
			state = k
		}
		r.NoteAdd("hook_calls_checked", int64(len(gh.seq)))
		gh.mu.Unlock()
	}
	finishConns(c, r, conns, a, ctxs, c.Mode == "plain")
}

// waitBounded waits for wg at most d (every operation behind it takes microseconds to a few client timeouts)
func waitBounded(wg *sync.WaitGroup, d time.Duration) bool {
	done := make(chan struct{})
	go func() { wg.Wait(); close(done) }()
	select {
	case <-done:
		return true
	case <-time.After(d):
		return false
	}
}

func dedupe(in []string) []string {
	seen := map[string]bool{}
	var out []string
	for _, s := range in {
		k, _ := split(s)
		if !seen[k] {
			seen[k] = true
			out = append(out, s)
		}
	}
	return out
}

func split(s string) (string, string) {
	for i := 0; i < len(s); i++ {
		if s[i] == 0 {
			return s[:i], s[i+1:]
		}
	}
	return "violation", s
}

func short(q specref.Req) string {
	return fmt.Sprintf("{fc %d unit %d tid %d addr %d qty %d}", q.FC, q.Unit, q.TID, q.Addr, q.Qty)
}

// finishConns turns what the transports saw into verdicts and evidence.
func finishConns(c *Case, r *mon.Rec, conns []*devConn, a mon.Attrs, ctxs string, exactOnce bool) {
	h := uint64(14)
	handoffs := 0
	total := 0
	for _, d := range conns {
		d.mu.Lock()
		for _, v := range d.viol {
			kind := "exchange-overlap"
			if len(v) > 7 && v[:7] == "garbled" {
				kind = "garbled-frame"
			}
			r.Violate(c, kind, a, ctxs+": "+v)
			break
		}
		for i, g := range d.wire {
			h = mon.Mix(h, uint64(g))
			if i > 0 && d.wire[i-1] != g {
				handoffs++
			}
		}
		total += len(d.wire)
		d.mu.Unlock()
	}
	if exactOnce && total != c.G*c.M {
		r.Violate(c, "wire-count", a, fmt.Sprintf("%s: %d requests issued, %d seen on the wire", ctxs, c.G*c.M, total))
	}
	r.Distinct(h)
	r.NoteAdd("handoffs_between_goroutines", int64(handoffs))
	r.NoteAdd("requests_on_wire", int64(total))
	r.Cover("mode", c.Mode+"/"+clientx.KindName(c.Client))
	if handoffs > 0 {
		r.Sample(map[string]any{"client": clientx.KindName(c.Client), "mode": c.Mode, "goroutines": c.G, "calls_each": c.M, "requests_on_wire": total, "handoffs": handoffs})
	}
}

// ---- linearizability of a register history ----

type regIn struct {
	Write bool
	Addr  uint16
	Val   uint16
}

func runLinear(c *Case, r *mon.Rec, cl doer, dev *simdev.Device, fr specref.Framing, a mon.Attrs, ctxs string) {
	const unit = 9
	for addr := 0; addr < 4; addr++ {
		dev.Set(unit, simdev.Holding, addr, 0)
	}
	var clock atomic.Int64
	var mu sync.Mutex
	var ops []porcupine.Operation
	var wg sync.WaitGroup
	var counter atomic.Int64
	for g := 0; g < c.G; g++ {
		wg.Add(1)
		go func(g int) {
			defer wg.Done()
			lr := rand.New(rand.NewSource(c.Seed ^ int64(g+1)*104729))
			for k := 0; k < c.M; k++ {
				addr := uint16(lr.Intn(4))
				in := regIn{Write: lr.Intn(2) == 0, Addr: addr}
				var q specref.Req
				if in.Write {
					in.Val = uint16(counter.Add(1))
					q = specref.Req{FC: 6, Unit: unit, TID: uint16(g*1000 + k + 1), Addr: addr, Value: in.Val}
				} else {
					q = specref.Req{FC: 3, Unit: unit, TID: uint16(g*1000 + k + 1), Addr: addr, Qty: 1}
				}
				req, err := libx.NewRequest(fr, q)
				if err != nil {
					return
				}
				t0 := clock.Add(1)
				resp, derr := cl.Do(context.Background(), req)
				t1 := clock.Add(1)
				if derr != nil {
					mu.Lock()
					ops = append(ops, porcupine.Operation{ClientId: g, Input: in, Call: t0, Output: "err:" + derr.Error(), Return: 1 << 40}) // keep open: may have taken effect
					mu.Unlock()
					r.Violate(c, "call-fails", a, fmt.Sprintf("%s: caller %d.%d: %v", ctxs, g, k, derr))
					continue
				}
				var out any = "ok"
				if !in.Write {
					if p, _, ok := libx.FromLibResponse(resp); ok && len(p.Data) == 2 {
						out = uint16(p.Data[0])<<8 | uint16(p.Data[1])
					} else {
						out = fmt.Sprintf("bad-response:%T", resp)
					}
				}
				mu.Lock()
				ops = append(ops, porcupine.Operation{ClientId: g, Input: in, Call: t0, Output: out, Return: t1})
				mu.Unlock()
			}
		}(g)
	}
	if !waitBounded(&wg, 60*time.Second) {
		buf := make([]byte, 1<<16)
		n := runtime.Stack(buf, true)
		r.Violate(c, "calls-never-return", a, fmt.Sprintf("%s: 60 s after the start callers of the register history were still blocked in Do; goroutines:\n%s", ctxs, string(buf[:n])))
		return
	}
	_ = cl.Close()
	model := porcupine.Model{
		Partition: func(h []porcupine.Operation) [][]porcupine.Operation {
			parts := make([][]porcupine.Operation, 4)
			for _, o := range h {
				i := o.Input.(regIn).Addr
				parts[i] = append(parts[i], o)
			}
			return parts
		},
		Init: func() any { return uint16(0) },
		Step: func(st, in, out any) (bool, any) {
			i := in.(regIn)
			if s, ok := out.(string); ok && len(s) > 4 && s[:4] == "err:" {
				return true, st // outcome unknown: read has no effect; a failed write is reported separately
			}
			if i.Write {
				return true, i.Val
			}
			v, ok := out.(uint16)
			return ok && v == st.(uint16), st
		},
		DescribeOperation: func(in, out any) string {
			i := in.(regIn)
			if i.Write {
				return fmt.Sprintf("write(%d,%d)", i.Addr, i.Val)
			}
			return fmt.Sprintf("read(%d)->%v", i.Addr, out)
		},
	}
	res, _ := porcupine.CheckOperationsVerbose(model, ops, 60*time.Second)
	r.Eval(len(ops))
	r.NoteAdd("porcupine_histories", 1)
	r.NoteAdd("porcupine_operations", int64(len(ops)))
	switch res {
	case porcupine.Illegal:
		var desc []string
		for i, o := range ops {
			if i > 60 {
				break
			}
			desc = append(desc, fmt.Sprintf("[%d,%d] g%d %s", o.Call, o.Return, o.ClientId, model.DescribeOperation(o.Input, o.Output)))
		}
		r.Violate(c, "not-linearizable", a, fmt.Sprintf("%s: register history has no linearization: %v", ctxs, desc))
	case porcupine.Unknown:
		r.Inconclusive("porcupine timed out on a history of " + fmt.Sprint(len(ops)) + " operations")
	}
}

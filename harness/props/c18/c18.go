// Package c18: the TCP stream classifier agrees with the encoders and the request parsers.
package c18

import (
	"errors"
	"fmt"
	"math/rand"

	"github.com/aldas/go-modbus-client/packet"
	"verif/libx"
	"verif/mon"
	"verif/specref"
)

type Case struct {
	Kind  string `json:"kind"` // prefix | cube | agree
	FC    int    `json:"fc"`
	Proto int    `json:"proto"`
	Lo    int    `json:"lo"`
	Hi    int    `json:"hi"`
	Seed  int64  `json:"seed"`
	N     int    `json:"n"`
}

func Spec() *mon.Spec {
	return &mon.Spec{
		ID:      "C18",
		RuleAdd: "Later additions (rounds 4-17): complete valid requests followed by padding under one header; typed-nil dispatcher errors and typed-nil requests; header cubes over length field x function code incl. lengths below a header's size.",
		Level:   "exploration",
		Rule: "prefix: request frames built by the library's constructors (all 10 functions, min/interior/max sizes, PRNG arguments); LooksLikeModbusTCP(prefix, false|true) for every prefix: <8 bytes => exactly ErrTCPDataTooShort; >=8 => (len(frame), nil) with len(frame)==6+length field. " +
			"cube: 8-byte headers over length field x function code 0..255 x protocol id {0,1,0x0100,0xFFFF}: protocol!=0 or fc==0 => refused as not-a-packet (never 'too short'); accepted => n==6+length; unsupported fc with length>=3 => (6+length, *ErrorParseTCP) whose Bytes() is the 9-byte illegal-function exception carrying the header's tid/unit/fc. " +
			"agree: for every accepted (fc, n<=300 and sampled larger) ParseTCPRequest on n bytes (zero/FF/PRNG/plausible bodies) returns a request or an *ErrorParseTCP whose Bytes() is a well-formed 9-byte exception ADU; never a panic or another error type. distinct key=(kind, fc, length, flag, outcome).",
		Assumptions: []string{"quick tier sweeps length fields 0..700 plus boundaries; thorough sweeps all 65536"},
		NewCase:     func() any { return &Case{} },
		Gen:         gen,
		Run:         run,
		SelfTest:    specref.SelfTest,
	}
}

func gen(g *mon.Gen) {
	rng := g.Rng
	for _, fc := range specref.FCs {
		for k := 0; k < g.Pick(120, 800); k++ {
			g.Emit(&Case{Kind: "prefix", FC: int(fc), Seed: rng.Int63(), N: k})
		}
	}
	for _, proto := range []int{0, 1, 0x0100, 0xFFFF} {
		for fc := 0; fc < 256; fc++ {
			if g.Thorough() {
				for lo := 0; lo < 65536; lo += 16384 {
					g.Emit(&Case{Kind: "cube", FC: fc, Proto: proto, Lo: lo, Hi: lo + 16383, Seed: rng.Int63()})
				}
			} else {
				g.Emit(&Case{Kind: "cube", FC: fc, Proto: proto, Lo: 0, Hi: 700, Seed: rng.Int63()})
				g.Emit(&Case{Kind: "cube", FC: fc, Proto: proto, Lo: -1, Seed: rng.Int63()})
			}
		}
	}
	for fc := 0; fc < 256; fc++ {
		g.Emit(&Case{Kind: "agree", FC: fc, Lo: 0, Hi: 300, Seed: rng.Int63(), N: g.Pick(2, 8)})
	}
	// (transaction id x unit id) cube on the headers of encodable request shapes: one case per unit id
	us := []int{0, 1, 5, 9, 14, 50, 56, 255}
	if g.Thorough() {
		us = us[:0]
		for u := 0; u < 256; u++ {
			us = append(us, u)
		}
	} else {
		for k := 0; k < 16; k++ {
			us = append(us, rng.Intn(256))
		}
	}
	for _, u := range us {
		g.Emit(&Case{Kind: "tidcube", FC: u, Seed: rng.Int63()})
	}
}

func validException(b []byte) bool {
	// (code 0 is no Modbus exception code: a refusal tells the client why)
	return len(b) == 9 && b[2] == 0 && b[3] == 0 && b[4] == 0 && b[5] == 3 && b[7]&0x80 != 0 && b[8] != 0
}

func classify(c *Case, r *mon.Rec, in []byte, flag bool) (n int, err error, ok bool) {
	if p, txt := mon.Catch(func() { n, err = packet.LooksLikeModbusTCP(in, flag) }); p {
		r.Violate(c, "classifier-panics", mon.Attrs{"len": len(in)}, fmt.Sprintf("% x: %s", in, txt))
		return 0, nil, false
	}
	return n, err, true
}

func run(ci any, r *mon.Rec) {
	c := ci.(*Case)
	rng := rand.New(rand.NewSource(c.Seed))
	switch c.Kind {
	case "prefix":
		size := []float64{0, 1, 0.5, 0.5}[c.N%4]
		q := libx.LegalReq(rng, uint8(c.FC), size)
		req, err := libx.NewRequest(specref.TCP, q)
		if err != nil {
			return
		}
		frame := req.Bytes()
		lf := int(frame[4])<<8 | int(frame[5])
		for k := 0; k <= len(frame); k++ {
			for _, flag := range []bool{false, true} {
				n, cerr, ok := classify(c, r, frame[:k:k], flag)
				if !ok {
					continue
				}
				r.Eval(1)
				if k < 8 {
					if cerr != packet.ErrTCPDataTooShort {
						r.Violate(c, "short-prefix-not-too-short", mon.Attrs{"fc": c.FC, "prefix": k}, fmt.Sprintf("prefix % x of an encodable frame: (%d, %v)", frame[:k], n, cerr))
					}
					continue
				}
				if cerr != nil || n != len(frame) || n != 6+lf {
					r.Violate(c, "classifier-rejects-encodable", mon.Attrs{"fc": c.FC, "prefix_ge8": true, "got_n": n, "want_n": len(frame), "err": fmt.Sprint(cerr)},
						fmt.Sprintf("prefix (%d of %d bytes) % x of the library's own request: (%d, %v), want (%d, nil)", k, len(frame), frame[:min(k, 16)], n, cerr, len(frame)))
				}
			}
		}
		r.Distinct(mon.Mix(1, uint64(c.FC), uint64(len(frame))))
		// the whole frame must then be accepted by the dispatcher (agreement on encodable frames)
		if v, perr := packet.ParseTCPRequest(frame); perr != nil {
			var ep *packet.ErrorParseTCP
			if !errors.As(perr, &ep) || !validException(ep.Bytes()) {
				r.Violate(c, "dispatcher-error-not-exception", mon.Attrs{"fc": c.FC}, fmt.Sprintf("%T %v", perr, perr))
			}
		} else if libx.IsNilValue(v) {
			r.Violate(c, "dispatcher-nil", mon.Attrs{"fc": c.FC}, fmt.Sprintf("nil request (%T) without error for the library's own frame % x", v, frame[:min(len(frame), 16)]))
		}
		if c.N == 0 {
			r.Sample(map[string]any{"kind": "prefix", "frame": fmt.Sprintf("% x", frame[:min(len(frame), 20)]), "prefixes": len(frame) + 1})
		}
	case "cube":
		var ls []int
		if c.Lo >= 0 {
			for l := c.Lo; l <= c.Hi; l++ {
				ls = append(ls, l)
			}
		} else {
			ls = []int{253, 254, 255, 256, 257, 259, 260, 1000, 4095, 4096, 32767, 32768, 65534, 65535}
			for i := 0; i < 40; i++ {
				ls = append(ls, rng.Intn(65536))
			}
		}
		var prevErr *packet.ErrorParseTCP
		var prevWant []byte
		for _, l := range ls {
			tid, unit := uint16(rng.Intn(65536)), uint8(rng.Intn(256))
			h := []byte{byte(tid >> 8), byte(tid), byte(c.Proto >> 8), byte(c.Proto), byte(l >> 8), byte(l), unit, byte(c.FC)}
			for _, flag := range []bool{false, true} {
				n, cerr, ok := classify(c, r, h, flag)
				if !ok {
					continue
				}
				r.Eval(1)
				a := mon.Attrs{"fc": c.FC, "proto0": c.Proto == 0, "flag": flag}
				if c.Proto != 0 || c.FC == 0 {
					if cerr == nil || errors.Is(cerr, packet.ErrTCPDataTooShort) { // (errors.Is: the way a caller tells "wait for more" from "not Modbus")
						r.Violate(c, "non-modbus-not-refused", a, fmt.Sprintf("header % x: (%d, %v)", h, n, cerr))
					}
					continue
				}
				if cerr == nil && n != 6+l {
					r.Violate(c, "accepted-length-wrong", a, fmt.Sprintf("header % x: n=%d want %d", h, n, 6+l))
				}
				if cerr != nil && errors.Is(cerr, packet.ErrTCPDataTooShort) {
					r.Violate(c, "complete-header-too-short", a, fmt.Sprintf("header % x classified too short: server would wait forever", h))
				}
				if prevErr != nil && !flag {
					if b := prevErr.Bytes(); string(b) != string(prevWant) {
						r.Violate(c, "classifier-result-changed-by-later-call", mon.Attrs{"fc": c.FC}, fmt.Sprintf("exception returned for an earlier header was % x, after a later classifier call it reads % x", prevWant, b))
					}
					prevErr = nil
				}
				if !specref.Supported(uint8(c.FC)) && l >= 3 && !flag {
					var ep *packet.ErrorParseTCP
					if cerr != nil && errors.As(cerr, &ep) {
						prevErr, prevWant = ep, append([]byte{}, ep.Bytes()...)
					}
					if cerr == nil || !errors.As(cerr, &ep) {
						r.Violate(c, "unsupported-not-classified", a, fmt.Sprintf("header % x: (%d, %v)", h, n, cerr))
					} else {
						b := ep.Bytes()
						want := []byte{h[0], h[1], 0, 0, 0, 3, unit, byte(c.FC) | 0x80, 1}
						if c.FC >= 128 && len(b) == 9 {
							// a request function code with the high bit already set has no defined exception code (fc|0x80 == fc);
							// the properties speak of unsupported codes 1..127, so only the addressing is compared here
							b[7], want[7] = 0, 0
						}
						if n != 6+l || string(b) != string(want) {
							r.Violate(c, "unsupported-exception-wrong", a, fmt.Sprintf("header % x: n=%d exception % x want n=%d % x", h, n, b, 6+l, want))
						}
					}
				}
				oc := 0
				if cerr != nil {
					oc = 1
				}
				if l < 700 || l%251 == 0 {
					r.Distinct(mon.Mix(2, uint64(c.FC), uint64(l), uint64(c.Proto), uint64(oc)))
				}
			}
		}
	case "tidcube":
		// every transaction id for unit c.FC: the 8-byte header (and the whole frame) of each encodable shape must be classified
		// (len, nil); shapes: FC1-6 (length 6), FC17 (length 2), FC16 with 1..4 registers, FC15 with 8 coils, FC23 with 1 write register
		unit := uint8(c.FC)
		type shape struct {
			fc  uint8
			len int
		}
		shapes := []shape{{1, 6}, {2, 6}, {3, 6}, {4, 6}, {5, 6}, {6, 6}, {17, 2}, {16, 9}, {16, 15}, {15, 8}, {23, 13}}
		bad := 0
		nn := 0
		for t := 0; t < 65536; t++ {
			for _, sh := range shapes {
				h := []byte{byte(t >> 8), byte(t), 0, 0, byte(sh.len >> 8), byte(sh.len), unit, sh.fc}
				n, cerr := packet.LooksLikeModbusTCP(h, false)
				nn++
				if cerr != nil || n != 6+sh.len {
					bad++
					if bad <= 4 {
						r.Violate(c, "classifier-rejects-encodable", mon.Attrs{"fc": int(sh.fc), "prefix_ge8": true, "cube": "tid x unit"}, fmt.Sprintf("header % x of an encodable fc%d request: (%d, %v), want (%d, nil)", h, sh.fc, n, cerr, 6+sh.len))
					}
				}
			}
		}
		r.Eval(nn)
		r.Distinct(mon.Mix(0x71D, uint64(c.FC)))
	case "agree":
		for l := c.Lo; l <= c.Hi+4; l++ {
			ll := l
			if l > c.Hi {
				ll = []int{301, 512, 1000, 4096, 65535}[l-c.Hi-1]
			}
			tid, unit := uint16(rng.Intn(65536)), uint8(rng.Intn(256))
			h := []byte{byte(tid >> 8), byte(tid), 0, 0, byte(ll >> 8), byte(ll), unit, byte(c.FC)}
			for _, flag := range []bool{false, true} {
				n, cerr, ok := classify(c, r, h, flag)
				if !ok || cerr != nil {
					continue
				}
				if n < 8 || n > 70000 {
					r.Violate(c, "accepted-length-wrong", mon.Attrs{"fc": c.FC, "flag": flag}, fmt.Sprintf("header % x: n=%d", h, n))
					continue
				}
				for rep := 0; rep < c.N; rep++ {
					for style := 0; style < 6; style++ {
						fr := make([]byte, n)
						copy(fr, h)
						if style == 5 {
							// a complete valid request of this function followed by padding, the header covering all of it
							if !specref.Supported(uint8(c.FC)) {
								continue
							}
							base := libx.LegalReq(rng, uint8(c.FC), []float64{0, 0.5}[rng.Intn(2)]).Encode(specref.TCP)
							if len(base) >= n {
								continue
							}
							copy(fr[8:], base[8:])
							if rng.Intn(2) == 0 {
								fill(rng, fr[len(base):], 2)
							}
						} else if style == 4 {
							// a valid request of this function cut down to n bytes, header kept consistent: internally
							// plausible fields (quantities, byte counts that agree with each other) in a frame that is too short
							if !specref.Supported(uint8(c.FC)) {
								continue
							}
							base := libx.LegalReq(rng, uint8(c.FC), []float64{0.5, 1}[rng.Intn(2)]).Encode(specref.TCP)
							if len(base) <= n {
								continue
							}
							copy(fr[8:], base[8:n])
						} else {
							fill(rng, fr[8:], style)
						}
						// the answer for a header does not change when more of the frame is there: the body is not the
						// classifier's business (asked again with 13 bytes and with the whole frame)
						for _, k := range []int{13, n} {
							if k > n || k <= 8 {
								continue
							}
							var n2 int
							var e2 error
							if p, _ := mon.Catch(func() { n2, e2 = packet.LooksLikeModbusTCP(fr[:k], flag) }); !p && (e2 != nil || n2 != n) {
								r.Violate(c, "classification-changes-with-more-bytes", mon.Attrs{"fc": c.FC, "bytes": map[bool]string{true: "13", false: "all"}[k == 13]}, fmt.Sprintf("header % x classified as (%d, nil); with %d bytes of the frame % x buffered: (%d, %v)", h, n, k, fr[:min(k, 20)], n2, e2))
								break
							}
						}
						r.Eval(1)
						var v packet.Request
						var perr error
						if p, txt := mon.Catch(func() { v, perr = packet.ParseTCPRequest(fr) }); p {
							r.Violate(c, "dispatcher-panics-on-accepted", mon.Attrs{"fc": c.FC}, fmt.Sprintf("classifier accepted n=%d for header % x; ParseTCPRequest(% x): %s", n, h, fr[:min(n, 24)], txt))
							continue
						}
						if perr == nil {
							if libx.IsNilValue(v) { // nil, or a nil pointer inside the interface: the server would hand it to the handler
								r.Violate(c, "dispatcher-nil", mon.Attrs{"fc": c.FC}, fmt.Sprintf("n=%d frame % x: nil request (%T) without error: neither parsed nor rejected", n, fr[:min(n, 24)], v))
							}
							r.Distinct(mon.Mix(3, uint64(c.FC), uint64(ll), 0))
							continue
						}
						ep, isEP := perr.(*packet.ErrorParseTCP) // the server type-asserts exactly like this
						if isEP && ep == nil {
							r.Violate(c, "dispatcher-error-not-exception", mon.Attrs{"fc": c.FC, "type": "nil *ErrorParseTCP inside a non-nil error"}, fmt.Sprintf("n=%d frame % x: neither a request nor an exception", n, fr[:min(n, 24)]))
							continue
						}
						if !isEP {
							r.Violate(c, "dispatcher-error-not-exception", mon.Attrs{"fc": c.FC, "type": fmt.Sprintf("%T", perr)}, fmt.Sprintf("n=%d header % x: %v", n, h, perr))
							continue
						}
						if !validException(ep.Bytes()) {
							r.Violate(c, "dispatcher-exception-malformed", mon.Attrs{"fc": c.FC}, fmt.Sprintf("n=%d header % x: % x", n, h, ep.Bytes()))
						} else if ep.Packet.Function != 0 && (ep.Packet.Function != uint8(c.FC) || ep.Packet.TransactionID != tid || ep.Packet.UnitID != unit) {
							// an exception that names a request at all must name THIS request (unfilled ones - function 0 - are header-level refusals)
							r.Violate(c, "dispatcher-exception-misaddressed", mon.Attrs{"fc": c.FC}, fmt.Sprintf("n=%d frame % x: exception % x does not carry the frame's tid/unit/function", n, fr[:min(n, 24)], ep.Bytes()))
						}
						r.Distinct(mon.Mix(3, uint64(c.FC), uint64(ll), 1))
					}
				}
			}
		}
	}
}

func fill(rng *rand.Rand, b []byte, style int) {
	switch style {
	case 0:
	case 1:
		for i := range b {
			b[i] = 0xFF
		}
	case 2:
		rng.Read(b)
	case 3:
		rng.Read(b)
		n := len(b)
		if n >= 4 {
			b[2], b[3] = 0, byte(1+rng.Intn(120))
		}
		if n >= 5 {
			b[4] = byte(n - 5)
		}
		if n >= 8 {
			b[6], b[7] = 0, byte(1+rng.Intn(120))
		}
		if n >= 9 {
			b[8] = byte(n - 9)
		}
	}
}

// Package c04: typed register access returns the addressed wire bytes or an error, never junk.
package c04

import (
	"bytes"
	"fmt"
	"math"
	"math/rand"
	"reflect"

	"github.com/aldas/go-modbus-client/packet"
	"verif/libx"
	"verif/mon"
	"verif/regref"
)

type Case struct {
	Count int    `json:"count"`
	Start int    `json:"start"`
	Seed  int64  `json:"seed"`
	Mode  string `json:"mode"` // edges | all | strings
	Lo    int    `json:"lo,omitempty"`
	Hi    int    `json:"hi,omitempty"`
}

func Spec() *mon.Spec {
	return &mon.Spec{
		ID:      "C04",
		RuleAdd: "Later additions (rounds 4-17): bit/byte/register accessors on every view default; strings of 1..255 bytes incl. text with embedded NULs and bytes >= 0x80; for the word-order-only values 4, 8, 12 a view default of o must agree with the explicit-order accessor for o.",
		Level:   "exploration",
		Rule: "a window = payload of count registers (1..125) at start (boundary/PRNG incl. windows ending at 65535); the payload is a sub-slice of a larger backing array, presented twice with different poison around it and with 'RTU-like' capacity (2 extra bytes). Every accessor variant (Register, DoubleRegister, QuadRegister, Bit 0..15 and 16/255, Byte/Uint8/Int8 hi/lo, Uint16/Int16, 32/64-bit ints and floats with default order via WithByteOrder and with explicit order, String/StringWithByteOrder lengths 1..255) x the seven documented orders is called at addresses: edges = window +-12, start+-32768, 0, 65535, PRNG; all = every address 0..65535. " +
			"Oracle (integer arithmetic): all size registers inside [start,start+count) => no error and value == reference decode (floats by bit pattern); otherwise => an error, not a panic, not a value; both poison passes agree. distinct key=(accessor, order, count class, start class, address relation).",
		Assumptions: []string{"reference decoder regref (documented semantics; validated against the documentation tables)",
			"only the seven documented byte orders {0,BE,LE,BE|LWF,BE|HWF,LE|LWF,LE|HWF}; view default order 0 excluded"},
		NewCase:  func() any { return &Case{} },
		Gen:      gen,
		Run:      run,
		SelfTest: regref.SelfTest,
	}
}

func starts(rng *rand.Rand, count int) []int {
	s := []int{0, 1, 2, 3, 4, 5, 100, 32766, 32767, 32768, 32769, 65535 - count - 1, 65536 - count - 1, 65536 - count}
	for i := 0; i < 3; i++ {
		s = append(s, rng.Intn(65536-count+1))
	}
	var out []int
	seen := map[int]bool{}
	for _, v := range s {
		if v >= 0 && v+count <= 65536 && !seen[v] {
			seen[v] = true
			out = append(out, v)
		}
	}
	return out
}

func gen(g *mon.Gen) {
	rng := g.Rng
	for count := 1; count <= 125; count++ {
		ss := starts(rng, count)
		if !g.Thorough() && count > 12 && count < 120 && count%8 != 0 {
			ss = []int{ss[0], ss[len(ss)-4], ss[len(ss)-1], ss[rng.Intn(len(ss))]} // 0, window ending at 65535, PRNG
		}
		for _, st := range ss {
			g.Emit(&Case{Count: count, Start: st, Seed: rng.Int63(), Mode: "edges"})
		}
		g.Emit(&Case{Count: count, Start: []int{0, 65536 - count, rng.Intn(65536 - count + 1)}[count%3], Seed: rng.Int63(), Mode: "strings"})
	}
	nAll := g.Pick(1, 28)
	for i := 0; i < nAll; i++ {
		count := []int{1, 2, 3, 4, 5, 125, 1 + rng.Intn(125)}[i%7]
		ss := starts(rng, count)
		st := ss[rng.Intn(len(ss))]
		if i < 14 {
			st = []int{0, 65536 - count}[i/7%2]
		}
		if !g.Thorough() {
			count, st = 3, 32767 // window spanning 32768, where uint16 doubling wraps
		}
		for lo := 0; lo < 65536; lo += 8192 {
			g.Emit(&Case{Count: count, Start: st, Seed: rng.Int63(), Mode: "all", Lo: lo, Hi: lo + 8191})
		}
	}
}

type view struct {
	regs [7]*packet.Registers // default order = regref.Orders[i] (index 0: untouched view default)
}

// mkViews builds the payload inside a poisoned backing array.
func mkViews(data []byte, start int, poison byte, extraCap int) (*view, error) {
	back := make([]byte, 64+len(data)+64)
	for i := range back {
		back[i] = poison + byte(i)
	}
	copy(back[64:], data)
	pl := back[64 : 64+len(data) : 64+len(data)+extraCap]
	v := &view{}
	for i, o := range regref.Orders {
		r, err := packet.NewRegisters(pl, uint16(start))
		if err != nil {
			return nil, err
		}
		if o != regref.Default {
			r.WithByteOrder(packet.ByteOrder(o))
		}
		v.regs[i] = r
	}
	return v, nil
}

type obs struct {
	c    *Case
	r    *mon.Rec
	w    regref.Window
	pass int
}

func relation(w regref.Window, addr, size int) string {
	end := w.Start + w.Count()
	switch {
	case w.Contains(addr, size):
		if addr == w.Start {
			return "in-head"
		}
		if addr+size == end {
			return "in-tail"
		}
		return "in"
	case addr < w.Start:
		if addr+size > w.Start {
			return "straddle-low"
		}
		return "below"
	case addr >= end:
		return "above"
	}
	return "straddle-high"
}

func cls(n int) string {
	switch {
	case n <= 4:
		return fmt.Sprint(n)
	case n < 125:
		return "5..124"
	}
	return "125"
}

func startCls(w regref.Window) string {
	switch {
	case w.Start == 0:
		return "0"
	case w.Start+w.Count() == 65536:
		return "ends-65535"
	case w.Start < 32768 && w.Start+w.Count() > 32768:
		return "spans-32768"
	}
	return "other"
}

// check compares one accessor observation with the oracle.
func (o *obs) check(name string, order regref.Order, addr, size int, want any, call func() (any, error)) {
	var got any
	var err error
	pn, ptxt := mon.Catch(func() { got, err = call() })
	o.r.Eval(1)
	in := o.w.Contains(addr, size)
	rel := relation(o.w, addr, size)
	a := mon.Attrs{"accessor": name, "rel": rel}
	ctx := func() string {
		return fmt.Sprintf("window [%d,%d) (%d regs, %s) accessor %s order %d address %d size %d pass %d", o.w.Start, o.w.Start+o.w.Count(), o.w.Count(), startCls(o.w), name, order, addr, size, o.pass)
	}
	switch {
	case pn:
		a["window"] = startCls(o.w)
		o.r.Violate(o.c, "accessor-panics", a, ctx()+": "+ptxt)
	case in && err != nil:
		a["window"] = startCls(o.w)
		o.r.Violate(o.c, "in-window-error", a, ctx()+": "+err.Error())
	case in && !equal(got, want):
		a["order"] = int(order)
		o.r.Violate(o.c, "wrong-value", a, fmt.Sprintf("%s: got %v (%T) want %v (%T); wire % x", ctx(), got, got, want, want, o.w.Wire(addr, size)))
	case !in && err == nil:
		a["window"] = startCls(o.w)
		d := addr - o.w.Start
		if d >= 32768 || d <= -32768 {
			a["wrap"] = true
		}
		o.r.Violate(o.c, "out-of-window-value", a, fmt.Sprintf("%s: returned %v instead of an error", ctx(), got))
	}
	if o.pass == 0 {
		o.r.Distinct(mon.Mix(mon.HashS(name), uint64(order), mon.HashS(cls(o.w.Count())), mon.HashS(startCls(o.w)), mon.HashS(rel)))
	}
}

func equal(got, want any) bool {
	switch g := got.(type) {
	case []byte:
		w, ok := want.([]byte)
		return ok && bytes.Equal(g, w)
	case float32:
		w, ok := want.(float32)
		return ok && math.Float32bits(g) == math.Float32bits(w)
	case float64:
		w, ok := want.(float64)
		return ok && math.Float64bits(g) == math.Float64bits(w)
	}
	return got == want
}

func (o *obs) wire(addr, size int) []byte {
	if o.w.Contains(addr, size) {
		return o.w.Wire(addr, size)
	}
	return make([]byte, 2*size)
}

// at exercises every non-string accessor at one address.
func (o *obs) at(v *view, addr int) {
	a := uint16(addr)
	r0 := v.regs[0]
	w1, w2, w4 := o.wire(addr, 1), o.wire(addr, 2), o.wire(addr, 4)
	o.check("Register", 0, addr, 1, append([]byte{}, w1...), func() (any, error) { return r0.Register(a) })
	for k := 0; k < 16; k++ {
		k := k
		o.check("Bit", 0, addr, 1, regref.Bit(w1, k), func() (any, error) { return r0.Bit(a, uint8(k)) })
	}
	for _, hi := range []bool{true, false} {
		hi := hi
		o.check("Byte", 0, addr, 1, regref.Byte(w1, hi), func() (any, error) { return r0.Byte(a, hi) })
		o.check("Uint8", 0, addr, 1, regref.Byte(w1, hi), func() (any, error) { return r0.Uint8(a, hi) })
		o.check("Int8", 0, addr, 1, int8(regref.Byte(w1, hi)), func() (any, error) { return r0.Int8(a, hi) })
	}
	for i, ord := range regref.Orders {
		rv := v.regs[i]
		if i > 0 { // bit and byte accessors are defined on the wire bytes: the view default must not matter
			for _, k := range []int{0, 7, 8, 15} {
				k := k
				o.check("Bit/other-default", ord, addr, 1, regref.Bit(w1, k), func() (any, error) { return rv.Bit(a, uint8(k)) })
			}
			o.check("Uint8/other-default", ord, addr, 1, regref.Byte(w1, true), func() (any, error) { return rv.Uint8(a, true) })
			o.check("Int8/other-default", ord, addr, 1, int8(regref.Byte(w1, false)), func() (any, error) { return rv.Int8(a, false) })
			o.check("Register/other-default", ord, addr, 1, append([]byte{}, w1...), func() (any, error) { return rv.Register(a) })
		}
		eff := regref.Resolve(ord, regref.ViewDefault) // order in effect when the view default is ord
		po := packet.ByteOrder(ord)
		u16 := uint16(regref.Uint(w1, eff))
		o.check("Uint16", ord, addr, 1, u16, func() (any, error) { return rv.Uint16(a) })
		o.check("Int16", ord, addr, 1, int16(u16), func() (any, error) { return rv.Int16(a) })
		u32 := uint32(regref.Uint(w2, eff))
		u64 := regref.Uint(w4, eff)
		o.check("DoubleRegister", ord, addr, 2, regref.Words(w2, ord), func() (any, error) { return r0.DoubleRegister(a, po) })
		o.check("QuadRegister", ord, addr, 4, regref.Words(w4, ord), func() (any, error) { return r0.QuadRegister(a, po) })
		// default-order accessors on a view whose default is ord
		o.check("Uint32", ord, addr, 2, u32, func() (any, error) { return rv.Uint32(a) })
		o.check("Int32", ord, addr, 2, int32(u32), func() (any, error) { return rv.Int32(a) })
		o.check("Float32", ord, addr, 2, math.Float32frombits(u32), func() (any, error) { return rv.Float32(a) })
		o.check("Uint64", ord, addr, 4, u64, func() (any, error) { return rv.Uint64(a) })
		o.check("Int64", ord, addr, 4, int64(u64), func() (any, error) { return rv.Int64(a) })
		o.check("Float64", ord, addr, 4, math.Float64frombits(u64), func() (any, error) { return rv.Float64(a) })
		// explicit order on the untouched view
		o.check("Uint32WithByteOrder", ord, addr, 2, u32, func() (any, error) { return r0.Uint32WithByteOrder(a, po) })
		o.check("Int32WithByteOrder", ord, addr, 2, int32(u32), func() (any, error) { return r0.Int32WithByteOrder(a, po) })
		o.check("Float32WithByteOrder", ord, addr, 2, math.Float32frombits(u32), func() (any, error) { return r0.Float32WithByteOrder(a, po) })
		o.check("Uint64WithByteOrder", ord, addr, 4, u64, func() (any, error) { return r0.Uint64WithByteOrder(a, po) })
		o.check("Int64WithByteOrder", ord, addr, 4, int64(u64), func() (any, error) { return r0.Int64WithByteOrder(a, po) })
		o.check("Float64WithByteOrder", ord, addr, 4, math.Float64frombits(u64), func() (any, error) { return r0.Float64WithByteOrder(a, po) })
		// an explicit order must not pick anything up from the view's default: same calls on the views with other defaults
		for _, j := range []int{3, 5} { // views whose default is BE|LWF and LE|LWF
			vj := v.regs[j]
			effj := regref.Resolve(ord, regref.Orders[j])
			x32 := uint32(regref.Uint(w2, effj))
			x64 := regref.Uint(w4, effj)
			o.check("Uint32WithByteOrder/other-default", ord, addr, 2, x32, func() (any, error) { return vj.Uint32WithByteOrder(a, po) })
			o.check("Float64WithByteOrder/other-default", ord, addr, 4, math.Float64frombits(x64), func() (any, error) { return vj.Float64WithByteOrder(a, po) })
			o.check("Int64WithByteOrder/other-default", ord, addr, 4, int64(x64), func() (any, error) { return vj.Int64WithByteOrder(a, po) })
			o.check("DoubleRegister/other-default", ord, addr, 2, regref.Words(w2, ord), func() (any, error) { return vj.DoubleRegister(a, po) })
			o.check("QuadRegister/other-default", ord, addr, 4, regref.Words(w4, ord), func() (any, error) { return vj.QuadRegister(a, po) })
		}
	}
}

// bitRange: bit numbers above 15 must be refused even inside the window.
func (o *obs) bitRange(v *view, addr int) {
	for _, k := range []int{16, 17, 128, 255} {
		k := k
		var err error
		pn, txt := mon.Catch(func() { _, err = v.regs[0].Bit(uint16(addr), uint8(k)) })
		o.r.Eval(1)
		if pn || err == nil {
			o.r.Violate(o.c, "bit-out-of-range-accepted", mon.Attrs{"bit": k}, fmt.Sprintf("address %d bit %d: panic=%v %s", addr, k, pn, txt))
		}
	}
}

func (o *obs) str(v *view, addr, length int) {
	size := regref.StringRegs(length)
	a := uint16(addr)
	for i, ord := range regref.Orders {
		rv := v.regs[i]
		eff := regref.Resolve(ord, regref.ViewDefault)
		var want string
		if o.w.Contains(addr, size) {
			want = regref.String(o.w.Wire(addr, size), length, eff)
		}
		o.check("String", ord, addr, size, want, func() (any, error) { return rv.String(a, uint8(length)) })
		o.check("StringWithByteOrder", ord, addr, size, want, func() (any, error) {
			return v.regs[0].StringWithByteOrder(a, uint8(length), packet.ByteOrder(ord))
		})
	}
}

// equiv: for the order values a caller can pass that are not among the documented seven (a word order without an
// endianness: 4, 8, 12) no reference value is claimed - but the selected order still decides alone: reading through a view
// whose default was set to o gives what the explicit-order accessor gives for o on an untouched view.
func (o *obs) equiv(v *view, addr, length int) {
	a := uint16(addr)
	for _, po := range []packet.ByteOrder{4, 8, 12} {
		rx, err := packet.NewRegisters(append([]byte{}, o.w.Data...), uint16(o.w.Start))
		if err != nil {
			return
		}
		rx.WithByteOrder(po)
		pairs := []struct {
			name     string
			def, exp func() (any, error)
		}{
			{"String", func() (any, error) { return rx.String(a, uint8(length)) }, func() (any, error) { return v.regs[0].StringWithByteOrder(a, uint8(length), po) }},
			{"Uint32", func() (any, error) { return rx.Uint32(a) }, func() (any, error) { return v.regs[0].Uint32WithByteOrder(a, po) }},
			{"Int64", func() (any, error) { return rx.Int64(a) }, func() (any, error) { return v.regs[0].Int64WithByteOrder(a, po) }},
			{"Float32", func() (any, error) { return rx.Float32(a) }, func() (any, error) { return v.regs[0].Float32WithByteOrder(a, po) }},
		}
		for _, pr := range pairs {
			var d, e any
			var de, ee error
			p1, _ := mon.Catch(func() { d, de = pr.def() })
			p2, _ := mon.Catch(func() { e, ee = pr.exp() })
			o.r.Eval(1)
			if p1 || p2 {
				continue // panics are reported by the accessor checks
			}
			if f, ok := d.(float32); ok {
				d = math.Float32bits(f)
				if g, ok := e.(float32); ok {
					e = math.Float32bits(g)
				}
			}
			if (de == nil) != (ee == nil) || (de == nil && !reflect.DeepEqual(d, e)) {
				o.r.Violate(o.c, "default-order-differs-from-explicit", mon.Attrs{"accessor": pr.name, "order": int(po)},
					fmt.Sprintf("address %d: view.WithByteOrder(%d).%s gives %v (err %v), %sWithByteOrder(..., %d) on an untouched view gives %v (err %v)", addr, po, pr.name, d, de, pr.name, po, e, ee))
				return
			}
		}
	}
}

func run(ci any, r *mon.Rec) {
	c := ci.(*Case)
	rng := rand.New(rand.NewSource(c.Seed))
	data := libx.RandBytes(rng, 2*c.Count)
	if rng.Intn(3) == 0 { // printable text with embedded NULs for the string accessors
		for i := range data {
			data[i] = byte('A' + rng.Intn(50))
			if rng.Intn(12) == 0 {
				data[i] = 0
			}
		}
	}
	w := regref.Window{Start: c.Start, Data: append([]byte{}, data...)}
	for pass, cfg := range []struct {
		poison byte
		extra  int
	}{{0x11, 0}, {0xC3, 2}, {0x77, 64}} {
		if c.Mode == "all" && pass == 2 {
			break
		}
		v, err := mkViews(data, c.Start, cfg.poison, cfg.extra)
		if err != nil {
			r.Violate(c, "newregisters-refuses", mon.Attrs{}, err.Error())
			return
		}
		o := &obs{c: c, r: r, w: w, pass: pass}
		switch c.Mode {
		case "edges":
			addrs := map[int]bool{0: true, 65535: true, 1: true, 65534: true}
			for d := -12; d <= 12; d++ {
				addrs[c.Start+d] = true
				addrs[c.Start+c.Count+d] = true
				addrs[c.Start+32768+d] = true
				addrs[c.Start-32768+d] = true
				addrs[c.Start+c.Count+32768+d] = true
			}
			for i := 0; i < c.Count; i += 1 + c.Count/16 {
				addrs[c.Start+i] = true
			}
			for i := 0; i < 6; i++ {
				addrs[rng.Intn(65536)] = true
			}
			for a := range addrs {
				if a >= 0 && a <= 65535 {
					o.at(v, a)
				}
			}
			o.bitRange(v, c.Start)
		case "all":
			for a := c.Lo; a <= c.Hi; a++ {
				o.at(v, a)
			}
		case "strings":
			for length := 1; length <= 255; length++ {
				size := regref.StringRegs(length)
				for _, a := range []int{c.Start, c.Start + c.Count - size, c.Start + c.Count - size + 1, c.Start - 1, c.Start + 1, c.Start + 32768, c.Start - 32768, c.Start + c.Count/2, rng.Intn(65536)} {
					if a >= 0 && a <= 65535 {
						o.str(v, a, length)
						if pass == 0 && length%5 == 1 {
							o.equiv(v, a, length)
						}
					}
				}
			}
		}
	}
	if c.Count%25 == 1 && c.Mode != "all" {
		r.Sample(c)
	}
	r.Cover("mode", c.Mode)
}

// Package c15: the TCP server answers each request once and in order, whatever the segmentation.
package c15

import (
	"bytes"
	"context"
	"errors"
	"fmt"
	"github.com/aldas/go-modbus-client/packet"
	"math/rand"
	"net"
	"sync"
	"time"

	"github.com/aldas/go-modbus-client/server"
	"verif/libx"
	"verif/mon"
	"verif/simdev"
	"verif/specref"
	"verif/srvx"
)

type Case struct {
	Layer string `json:"layer"` // A | B
	Kind  string `json:"kind"`  // all | cuts2 | random
	FCs   []int  `json:"fcs"`   // functions of the requests in the stream
	Size  int    `json:"size"`
	Seed  int64  `json:"seed"`
	Lo    int    `json:"lo,omitempty"`
	Hi    int    `json:"hi,omitempty"`
}

func Spec() *mon.Spec {
	return &mon.Spec{
		ID:      "C15",
		RuleAdd: "Later additions (rounds 4-17): slow handlers against a short write timeout; a bystander connection holding a partial frame; a 650 ms pause inside a request; a checking assembler wrapper; handlers that look at their context; refused and largest requests inside streams; transports that report bytes together with a deadline error; a busy handler (plain errors, one shared unaddressed typed error); transaction ids equal to the checksum of the frame before; a 700+ byte stream in one write; a handler that reuses one reply buffer; thorough tier: a request dribbling in over 27 s.",
		Level:   "exploration",
		Rule: "layer A (exact): (*ModbusTCPAssembler).ReceiveRead is fed the concatenation of 1..k library-built request frames cut by a segmentation; the handler is the simulated device. all = ALL 2^(n-1) segmentations of every single request with n<=15 bytes (FC1-6 12 bytes, FC15/16 minimal, FC17 8 bytes); cuts2 = all single and double cuts of longer requests and of streams of 2-3 requests (cuts inside and exactly between frames, i.e. next request sent early); random = PRNG segmentations of streams of up to 6 requests of all ten functions. " +
			"Oracle per feed i: cumulative output is a prefix of the reply stream obtained by feeding each request whole to a fresh assembler (which must equal the device's reference replies); it never exceeds the replies of the requests complete after feed i (nothing sent early); for segmentations where no segment spans a frame boundary (lock-step) it equals them exactly; at the end it equals the whole reply stream. " +
			"layer B (end-to-end, -race): server.Server.Serve on an in-memory listener with net.Pipe connections (one client write of <=300 bytes is exactly one server read): lock-step clients must receive each complete reply after its completing write; total bytes received must equal the expected stream (surplus = premature output). distinct key=(layer, functions, segmentation hash).",
		Assumptions: []string{"layer B waits up to 2 s for a reply that the exact layer A says must come; the wait is a watchdog for a verdict layer A already decides", "replies come from a fresh, deterministic device per run"},
		NewCase:     func() any { return &Case{} },
		Gen:         gen,
		Run:         run,
		Race:        true,
		SelfTest:    specref.SelfTest,
	}
}

func gen(g *mon.Gen) {
	rng := g.Rng
	for _, fc := range []int{1, 2, 3, 4, 5, 6, 17, 15, 16} {
		n := map[int]int{1: 12, 2: 12, 3: 12, 4: 12, 5: 12, 6: 12, 17: 8, 15: 14, 16: 15}[fc]
		total := 1 << uint(n-1)
		chunk := 1024
		for lo := 0; lo < total; lo += chunk {
			if !g.Thorough() && n > 12 && (lo/chunk)%4 != 0 {
				continue
			}
			g.Emit(&Case{Layer: "A", Kind: "all", FCs: []int{fc}, Seed: rng.Int63(), Lo: lo, Hi: min(lo+chunk, total)})
		}
	}
	for _, fc := range []int{15, 16, 23} {
		for size := 1; size <= 2; size++ {
			g.Emit(&Case{Layer: "A", Kind: "cuts2", FCs: []int{fc}, Size: size, Seed: rng.Int63()})
		}
	}
	for i := 0; i < g.Pick(60, 1200); i++ {
		k := 2 + rng.Intn(2)
		fcs := make([]int, k)
		for j := range fcs {
			fcs[j] = int(specref.FCs[rng.Intn(10)])
		}
		g.Emit(&Case{Layer: "A", Kind: "cuts2", FCs: fcs, Seed: rng.Int63()})
	}
	// hostile payloads: write requests (FC15/16/23) whose data bytes are themselves complete request frames, every cut
	for i := 0; i < g.Pick(40, 600); i++ {
		g.Emit(&Case{Layer: "A", Kind: "embedded", FCs: []int{[]int{16, 15, 23}[i%3], int(specref.FCs[rng.Intn(10)])}, Seed: rng.Int63()})
	}
	for i := 0; i < g.Pick(400, 20000); i++ {
		k := 1 + rng.Intn(6)
		fcs := make([]int, k)
		for j := range fcs {
			fcs[j] = int(specref.FCs[rng.Intn(10)])
			if rng.Intn(8) == 0 {
				fcs[j] = 0 // a well-formed frame with an unsupported function code (answered with exception 01, then consumed)
			}
		}
		g.Emit(&Case{Layer: "A", Kind: "random", FCs: fcs, Seed: rng.Int63()})
	}
	for i := 0; i < g.Pick(60, 1500); i++ {
		k := 1 + rng.Intn(4)
		fcs := make([]int, k)
		for j := range fcs {
			fcs[j] = int(specref.FCs[rng.Intn(10)])
		}
		g.Emit(&Case{Layer: "B", Kind: "random", FCs: fcs, Seed: rng.Int63()})
	}
	if g.Thorough() {
		// (thorough only: each case takes 27 s) a request that dribbles in over longer than the server's idle timeout
		// (25 s), every pause shorter than it: a connection that keeps receiving bytes is not idle
		for i := 0; i < 3; i++ {
			g.Emit(&Case{Layer: "B", Kind: "very-slow", FCs: []int{3, []int{16, 3, 15}[i]}, Seed: rng.Int63()})
		}
	}
	// layer L: the same through ListenAndServe on the loopback interface (plausibility cross-check of layer B's in-memory
	// transport: here the kernel decides how writes are segmented, pauses between writes make splitting likely)
	for i := 0; i < g.Pick(8, 120); i++ {
		k := 1 + rng.Intn(3)
		fcs := make([]int, k)
		for j := range fcs {
			fcs[j] = int(specref.FCs[rng.Intn(10)])
		}
		g.Emit(&Case{Layer: "L", Kind: "random", FCs: fcs, Seed: rng.Int63()})
	}
}

// stream builds the request frames of a case.
// embeddedPayload returns data bytes that are a sequence of valid TCP request frames (padded to an even length).
func embeddedPayload(rng *rand.Rand, max int) []byte {
	var out []byte
	for len(out) < max-12 {
		q := libx.LegalReq(rng, []uint8{3, 1, 6, 5, 17, 4}[rng.Intn(6)], 0)
		q.TID = uint16(0x7700 + rng.Intn(200))
		f := q.Encode(specref.TCP)
		if len(out)+len(f) > max {
			break
		}
		out = append(out, f...)
		if rng.Intn(3) == 0 {
			break
		}
	}
	if len(out)%2 == 1 {
		out = append(out, 0)
	}
	return out
}

func stream(c *Case, rng *rand.Rand) (frames [][]byte, err error) {
	if c.Kind == "embedded" {
		fc := uint8(c.FCs[0])
		q := specref.Req{FC: fc, Unit: libx.U8(rng), TID: 0x1100, Addr: libx.U16(rng)}
		d := embeddedPayload(rng, 60)
		if rng.Intn(2) == 0 { // some leading bytes so that the embedded frame does not start right at the payload start
			d = append(libx.RandBytes(rng, 2*(1+rng.Intn(3))), d...)
		}
		switch fc {
		case 16:
			q.Qty, q.Data = uint16(len(d)/2), d
		case 15:
			q.Qty, q.Data = uint16(8*len(d)), d
		case 23:
			q.Qty, q.WAddr, q.WQty, q.Data = uint16(1+rng.Intn(10)), libx.U16(rng), uint16(len(d)/2), d
		}
		req, e := libx.NewRequest(specref.TCP, q)
		if e != nil {
			return nil, e
		}
		frames = append(frames, req.Bytes())
		q2 := libx.LegalReq(rng, uint8(c.FCs[1]), 0)
		q2.TID = 0x1201
		if (q2.FC == 1 || q2.FC == 2) && q2.Qty > 125 {
			q2.Qty = 5
		}
		req2, e := libx.NewRequest(specref.TCP, q2)
		if e != nil {
			return nil, e
		}
		return append(frames, req2.Bytes()), nil
	}
	for i, fc := range c.FCs {
		if fc == 0 {
			ufc := []byte{7, 8, 11, 20, 22, 24, 43, 100}[rng.Intn(8)]
			frames = append(frames, specref.Frame(specref.TCP, uint16(0x1100+i*0x101), libx.U8(rng), append([]byte{ufc}, libx.RandBytes(rng, 2+rng.Intn(9))...)))
			continue
		}
		size := 0.0
		if c.Size == 1 {
			size = 0.5
		} else if c.Size == 2 {
			size = 1
		} else if len(c.FCs) > 1 && c.Kind != "all" {
			size = []float64{0, 0, 0.5}[rng.Intn(3)]
		}
		q := libx.LegalReq(rng, uint8(fc), size)
		q.TID = uint16(0x1100 + i*0x101 + rng.Intn(200))
		if i > 0 && rng.Intn(4) == 0 {
			// the client chooses its transaction ids freely: here the two bytes that follow the previous frame happen to be
			// the RTU checksum of that frame's unit id and PDU (low byte first) - they are still the next request's id
			prev := frames[len(frames)-1]
			w := specref.CRC(prev[6:])
			q.TID = uint16(byte(w))<<8 | uint16(w>>8)
		}
		if (fc == 1 || fc == 2) && q.Qty > 125 {
			q.Qty = uint16(1 + rng.Intn(125)) // the library's FC1/2 request parser refuses more (C09 known finding)
		}
		// (the largest legal write requests - 257..259 byte frames - stay in: FC16 up to 123 registers, FC15 up to 1968
		// coils, FC23 up to 121 written registers are what LegalReq draws at most)
		if fc <= 4 && len(c.FCs) > 1 && c.Kind != "all" && rng.Intn(10) == 0 {
			// a read request whose body is cut short under a header that says so (length field 3 or 4): complete as a
			// frame, refused as a request - answered with an exception, once, and what follows it is still served
			full := q.Encode(specref.TCP)
			frames = append(frames, specref.Frame(specref.TCP, q.TID, q.Unit, full[7:9+rng.Intn(2)]))
			continue
		}
		if fc <= 4 && len(c.FCs) > 1 && c.Kind != "all" && rng.Intn(8) == 0 {
			// a read request the parser refuses (quantity 0): it is answered with an exception - once - and whatever
			// follows it in the same read is still served
			q.Qty = 0
			frames = append(frames, q.Encode(specref.TCP))
			continue
		}
		req, e := libx.NewRequest(specref.TCP, q)
		if e != nil {
			return nil, e
		}
		frames = append(frames, req.Bytes())
	}
	return frames, nil
}

func devSeed(c *Case) uint64 { return uint64(c.Seed) ^ 0xabcdef }

// busy: in a fifth of the stream cases the device is "busy" for some requests: the handler returns a plain application
// error for every FC17 request and for every request whose transaction id is 1 modulo 4. The server turns that into an
// exception addressed to the request - once, and without touching the request that follows it in the buffer.
func busy(c *Case) bool { return c.Seed%5 == 2 && c.Kind != "all" && c.Kind != "embedded" }

func busyFor(fc uint8, tid uint16) bool { return fc == 17 || tid%4 == 1 }

// sentinelFor: requests the busy handler refuses with ONE error value of the library's typed kind that it made once
// (packet.NewErrorParseTCP takes no addressing) and returns every time. What the client gets for such a request is
// whatever it would get for it as the only request of a connection.
func sentinelFor(fc uint8, tid uint16) bool { return fc != 17 && tid%4 == 3 }

var errBusy = errors.New("verif: device busy")

func devHandler(c *Case, dev *simdev.Device) server.ModbusHandler {
	h := srvx.DevHandler(dev, nil)
	if c.Seed%7 == 3 && c.Kind != "all" {
		// a handler that encodes every reply into one buffer it keeps and reuses: what Bytes() returns is good until the
		// handler is called again (and has room behind it) - the server takes the bytes it needs before asking again
		inner := h
		scratch := make([]byte, 0, 1024)
		h = srvx.HandlerFunc(func(ctx context.Context, req packet.Request) (packet.Response, error) {
			resp, err := inner.Handle(ctx, req)
			if err != nil || resp == nil {
				return resp, err
			}
			scratch = append(scratch[:0], resp.Bytes()...)
			return srvx.RawResp{FC: resp.FunctionCode(), B: scratch}, nil
		})
	}
	if !busy(c) {
		return h
	}
	sentinel := packet.NewErrorParseTCP(packet.ErrServerBusy, "verif: busy, try later")
	return srvx.HandlerFunc(func(ctx context.Context, req packet.Request) (packet.Response, error) {
		b := req.Bytes()
		if busyFor(b[7], uint16(b[0])<<8|uint16(b[1])) {
			return nil, errBusy
		}
		if sentinelFor(b[7], uint16(b[0])<<8|uint16(b[1])) {
			return nil, sentinel
		}
		return h.Handle(ctx, req)
	})
}

// wholeReplies feeds each frame whole to ONE fresh assembler+device (state carries over between requests, as on a connection).
func wholeReplies(c *Case, frames [][]byte) ([][]byte, string) {
	dev := simdev.New(devSeed(c), "srv")
	outs, _, ptxt := srvx.Feed(devHandler(c, dev), frames)
	return outs, ptxt
}

func refReplies(c *Case, frames [][]byte) [][]byte {
	dev := simdev.New(devSeed(c), "srv")
	var out [][]byte
	for _, f := range frames {
		rep := dev.Serve(specref.TCP, f)
		if len(f) == 12 && f[7] >= 1 && f[7] <= 4 && f[10] == 0 && f[11] == 0 { // quantity 0: illegal data value, addressed to the request
			rep = []byte{f[0], f[1], 0, 0, 0, 3, f[6], f[7] | 0x80, 3}
		}
		if (len(f) == 9 || len(f) == 10) && f[7] >= 1 && f[7] <= 4 && int(f[4])<<8|int(f[5]) == len(f)-6 { // truncated body: illegal data value
			rep = []byte{f[0], f[1], 0, 0, 0, 3, f[6], f[7] | 0x80, 3}
		}
		if rep == nil && len(f) >= 9 && !specref.Supported(f[7]) { // unsupported function: exception 01 addressed to the request
			rep = []byte{f[0], f[1], 0, 0, 0, 3, f[6], f[7] | 0x80, 1}
		}
		if busy(c) {
			if q, err := specref.DecodeReq(specref.TCP, f); err == nil && q.Legal() && busyFor(q.FC, q.TID) {
				// the handler refused it with a plain error: the library's catch-all exception, addressed to the request
				rep = []byte{f[0], f[1], 0, 0, 0, 3, f[6], f[7] | 0x80, packet.ErrUnknown}
			} else if err == nil && q.Legal() && sentinelFor(q.FC, q.TID) {
				// reference: this request alone on a fresh assembler with a fresh handler
				alone, _, _ := srvx.Feed(devHandler(c, simdev.New(devSeed(c), "srv")), [][]byte{f})
				rep = nil
				for _, o := range alone {
					rep = append(rep, o...)
				}
			}
		}
		out = append(out, rep)
	}
	return out
}

func judgeA(c *Case, r *mon.Rec, frames [][]byte, replies [][]byte, cuts []int) {
	judgeAP(c, r, frames, replies, cuts, -1)
}

// judgeAP: as judgeA; pauseSeg >= 0 makes the client hesitate 350 ms before feeding that segment (reassembly must not depend on timing).
func judgeAP(c *Case, r *mon.Rec, frames [][]byte, replies [][]byte, cuts []int, pauseSeg int) {
	var all []byte
	var bounds []int
	for _, f := range frames {
		all = append(all, f...)
		bounds = append(bounds, len(all))
	}
	segs := srvx.Split(all, cuts)
	dev := simdev.New(devSeed(c), "srv")
	outs, _, ptxt := srvx.FeedPaused(devHandler(c, dev), segs, pauseSeg, 350*time.Millisecond)
	r.Eval(1)
	a := mon.Attrs{"layer": "A", "requests": len(frames)}
	if pauseSeg >= 0 {
		a["paused"] = true
	}
	ctx := func() string {
		return fmt.Sprintf("stream of %d request(s) fc%v (%d bytes, frame ends %v) fed with cuts %v", len(frames), c.FCs, len(all), bounds, brief(cuts))
	}
	if ptxt != "" {
		r.Violate(c, "assembler-panics", a, ctx()+": "+ptxt)
		return
	}
	var R []byte
	for _, p := range replies {
		R = append(R, p...)
	}
	// lock-step compatible: no segment spans a frame boundary
	lock := true
	isBound := map[int]bool{}
	for _, b := range bounds {
		isBound[b] = true
	}
	off := 0
	for _, s := range segs {
		for _, b := range bounds {
			if off < b && off+len(s) > b {
				lock = false
			}
		}
		off += len(s)
	}
	var O []byte
	fed := 0
	for i, s := range segs {
		fed += len(s)
		O = append(O, outs[i]...)
		complete := 0
		for j, b := range bounds {
			if b <= fed {
				complete += len(replies[j])
			}
		}
		if !bytes.HasPrefix(R, O) {
			partial := fed < bounds[len(bounds)-1] && !isBound[fed]
			a2 := mon.Attrs{"layer": "A", "mid_frame": partial, "buffered_ge8": true}
			r.Violate(c, "output-not-reply-stream", a2, fmt.Sprintf("%s: after feed %d (%d bytes fed) the assembler has returned % x, which is not a prefix of the reply stream % x", ctx(), i, fed, head(O), head(R)))
			return
		}
		if len(O) > complete {
			r.Violate(c, "reply-before-request-complete", a, fmt.Sprintf("%s: after feed %d (%d bytes fed) %d reply bytes were returned but only %d are due", ctx(), i, fed, len(O), complete))
			return
		}
		if lock && len(O) != complete {
			r.Violate(c, "lockstep-reply-missing", a, fmt.Sprintf("%s: feed %d completed a request (%d bytes fed) but only %d of %d reply bytes were returned", ctx(), i, fed, len(O), complete))
			return
		}
	}
	if !bytes.Equal(O, R) {
		r.Violate(c, "pipelined-reply-withheld", mon.Attrs{"layer": "A"}, fmt.Sprintf("%s: all bytes fed, %d of %d reply bytes returned (a read that completes more than one request answers only the first)", ctx(), len(O), len(R)))
	}
}

func head(b []byte) []byte {
	if len(b) > 40 {
		return b[:40]
	}
	return b
}

func brief(c []int) string {
	if len(c) > 16 {
		return fmt.Sprintf("%v...(%d cuts)", c[:16], len(c))
	}
	return fmt.Sprint(c)
}

func run(ci any, r *mon.Rec) {
	c := ci.(*Case)
	rng := rand.New(rand.NewSource(c.Seed))
	frames, err := stream(c, rng)
	if err != nil {
		r.Violate(c, "constructor-refuses-legal", mon.Attrs{}, err.Error())
		return
	}
	replies, ptxt := wholeReplies(c, frames)
	if ptxt != "" {
		r.Violate(c, "assembler-panics", mon.Attrs{"layer": "A", "whole": true}, ptxt)
		return
	}
	ref := refReplies(c, frames)
	for j := range frames {
		if j >= len(replies) || !bytes.Equal(replies[j], ref[j]) {
			var got []byte
			if j < len(replies) {
				got = replies[j]
			}
			r.Violate(c, "whole-frame-reply-differs-from-device", mon.Attrs{"fc": c.FCs[j]}, fmt.Sprintf("request % x fed whole: assembler returned % x, device reference reply % x", head(frames[j]), head(got), head(ref[j])))
			return
		}
	}
	total := 0
	for _, f := range frames {
		total += len(f)
	}
	h := uint64(15)
	for _, fc := range c.FCs {
		h = mon.Mix(h, uint64(fc))
	}
	if c.Layer == "B" && c.Kind == "very-slow" {
		runVerySlow(c, r, rng, frames, ref)
		return
	}
	if c.Layer == "B" {
		runB(c, r, rng, frames, ref, h)
		return
	}
	if c.Layer == "L" {
		runL(c, r, rng, frames, ref, h)
		return
	}
	switch c.Kind {
	case "all":
		for mask := c.Lo; mask < c.Hi; mask++ {
			var cuts []int
			for b := 0; b < total-1; b++ {
				if mask&(1<<uint(b)) != 0 {
					cuts = append(cuts, b+1)
				}
			}
			judgeA(c, r, frames, replies, cuts)
			r.Distinct(mon.Mix(h, uint64(mask)))
		}
		if c.Lo == 0 {
			r.Sample(map[string]any{"layer": "A", "kind": "all segmentations", "fc": c.FCs, "frame": fmt.Sprintf("% x", frames[0]), "segmentations": 1 << uint(total-1)})
		}
	case "embedded":
		judgeA(c, r, frames, replies, nil)
		for a := 1; a < total; a++ {
			judgeA(c, r, frames, replies, []int{a})
			r.Distinct(mon.Mix(h, 0xE, uint64(a)))
		}
		for i := 0; i < 40; i++ {
			a, b := 1+rng.Intn(total-1), 1+rng.Intn(total-1)
			if a > b {
				a, b = b, a
			}
			judgeA(c, r, frames, replies, []int{a, b})
		}
		// the client hesitates exactly where an embedded frame begins (and at the start of the payload)
		f0 := frames[0]
		type emb struct{ k, n int }
		var at []emb
		for k := 8; k+8 <= len(f0); k++ {
			if f0[k+2] == 0 && f0[k+3] == 0 {
				if n := 6 + int(f0[k+4])<<8 + int(f0[k+5]); n >= 8 && k+n <= len(f0) {
					if _, err := specref.DecodeReq(specref.TCP, f0[k:k+n]); err == nil {
						at = append(at, emb{k, n})
					}
				}
			}
		}
		if len(at) > 3 {
			at = at[:3]
		}
		for _, e := range at {
			judgeAP(c, r, frames, replies, []int{e.k}, 1)            // the rest of the stream arrives after the pause
			judgeAP(c, r, frames, replies, []int{e.k, e.k + e.n}, 1) // exactly the embedded frame arrives after the pause
			r.Distinct(mon.Mix(h, 0xEE, uint64(e.k)))
		}
	case "cuts2":
		judgeA(c, r, frames, replies, nil)
		for a := 1; a < total; a++ {
			judgeA(c, r, frames, replies, []int{a})
			r.Distinct(mon.Mix(h, uint64(a)))
		}
		step := 1
		if total > 60 {
			step = total / 40
		}
		for a := 1; a < total; a += step {
			for b := a + 1; b < total; b += step {
				judgeA(c, r, frames, replies, []int{a, b})
				r.Distinct(mon.Mix(h, uint64(a), uint64(b)))
			}
		}
	case "random":
		for i := 0; i < 20; i++ {
			var cuts []int
			p := 0
			for p < total-1 {
				p += 1 + rng.Intn(1+[]int{3, 12, 40, total}[rng.Intn(4)])
				if p < total {
					cuts = append(cuts, p)
				}
			}
			judgeA(c, r, frames, replies, cuts)
			hh := h
			for _, k := range cuts {
				hh = mon.Mix(hh, uint64(k))
			}
			r.Distinct(hh)
		}
		r.Sample(map[string]any{"layer": "A", "kind": "random", "fcs": c.FCs, "stream_bytes": total})
	}
}

// runB: end-to-end through server.Server over the in-memory listener.
func runB(c *Case, r *mon.Rec, rng *rand.Rand, frames [][]byte, ref [][]byte, h uint64) {
	dev := simdev.New(devSeed(c), "srv")
	l := srvx.NewMemListener()
	if c.Seed%5 == 2 {
		l.DataWithDeadline = true // the listener is any net.Listener: its connections may report bytes together with a timeout
		r.Cover("layer", "B-bytes-with-deadline-transport")
	}
	s := &server.Server{OnErrorFunc: func(error) {}}
	ctx, cancel := context.WithCancel(context.Background())
	served := make(chan error, 1)
	lock := rng.Intn(3) != 0
	// a quarter of the runs use a device that needs time: longer than the server's write timeout (300 ms in these runs) for
	// one lock-step request, or 120 ms per request so that the requests completed by one read add up to more than that. The
	// time a handler takes is not the client's fault: the reply is still owed.
	h2 := devHandler(c, dev)
	slow := c.Seed%4 == 1
	// some pipelined runs send a long stream (the case's requests repeated until it exceeds 700 bytes) in ONE write: the
	// server's reads come back full - 300 bytes - and cut the stream wherever they cut it
	burst := !lock && !slow && c.Seed%3 == 1
	if burst {
		base, n := frames, 0
		for _, f := range base {
			n += len(f)
		}
		for total := n; total < 700; total += n {
			frames = append(frames, base...)
		}
		if (uint64(c.Seed)>>4)%2 == 0 {
			// ... or a burst that ends exactly where the server's read buffer does (25 or 50 twelve-byte requests: 300 or 600
			// bytes): a read that comes back full says nothing about more being on the way
			frames = frames[:0]
			for k := 0; k < 25*(1+int((uint64(c.Seed)>>5)%2)); k++ {
				q := libx.LegalReq(rng, uint8([]int{3, 4, 3, 1}[k%4]), 0)
				q.TID = uint16(0x3000 + k)
				if q.Qty > 125 {
					q.Qty = 5
				}
				frames = append(frames, q.Encode(specref.TCP))
			}
			r.Cover("layer", "B-burst-ending-on-the-read-buffer-boundary")
		}
		ref = refReplies(c, frames)
		r.Cover("layer", "B-one-write-longer-than-the-read-buffer")
	}
	s.WriteTimeout = 2 * time.Second // (the default 50 ms is scheduling noise on a loaded machine)
	if slow {
		s.WriteTimeout = 300 * time.Millisecond
		d := 120 * time.Millisecond
		if lock {
			d = 400 * time.Millisecond
		}
		inner := h2
		h2 = srvx.HandlerFunc(func(ctx context.Context, req packet.Request) (packet.Response, error) {
			time.Sleep(d)
			return inner.Handle(ctx, req)
		})
		r.Cover("layer", "B-slow-handler")
	}
	// the handler looks at its context the way a gateway that forwards the request would: a context that has already
	// ended when the handler is entered means the request cannot be served
	var ctxMu sync.Mutex
	ctxBad := ""
	inner2 := h2
	h2 = srvx.HandlerFunc(func(ctx context.Context, req packet.Request) (packet.Response, error) {
		if e := ctx.Err(); e != nil {
			ctxMu.Lock()
			ctxBad = e.Error()
			ctxMu.Unlock()
		}
		return inner2.Handle(ctx, req)
	})
	// half of the runs plug in an assembler of their own (a checking wrapper around the default one)
	var checkers []*srvx.CheckAssembler
	var chkMu sync.Mutex
	if c.Seed%2 == 1 {
		s.AssemblerCreatorFunc = func(h server.ModbusHandler) server.PacketAssembler {
			ca := &srvx.CheckAssembler{Inner: &server.ModbusTCPAssembler{Handler: h}}
			chkMu.Lock()
			checkers = append(checkers, ca)
			chkMu.Unlock()
			return ca
		}
		r.Cover("layer", "B-custom-assembler")
	}
	defer func() {
		ctxMu.Lock()
		if ctxBad != "" {
			r.Violate(c, "handler-context-ended", mon.Attrs{"layer": "B"}, "a handler was entered with a context that had already ended ("+ctxBad+") while its connection was alive and the server running")
		}
		ctxMu.Unlock()
		chkMu.Lock()
		for _, ca := range checkers {
			for _, pr := range ca.Problems() {
				r.Violate(c, "assembler-arguments-inconsistent", mon.Attrs{"layer": "B"}, pr)
				break
			}
		}
		chkMu.Unlock()
	}()
	go func() { served <- s.Serve(ctx, l, h2) }()
	defer func() {
		sctx, sc := context.WithTimeout(context.Background(), 3*time.Second)
		_ = s.Shutdown(sctx)
		sc()
		cancel()
		select {
		case <-served:
		case <-time.After(3 * time.Second):
		}
	}()
	cli, _, err := l.Dial(2 * time.Second)
	if err != nil {
		r.Inconclusive("layer B: cannot connect to the in-memory server: " + err.Error())
		return
	}
	defer cli.Close()
	if c.Seed%3 == 0 {
		// a bystander connection that has sent the beginning of a request and then nothing: what one connection has
		// buffered is no business of another
		if by, _, berr := l.Dial(2 * time.Second); berr == nil {
			defer by.Close()
			part := frames[0][:1+rng.Intn(len(frames[0])-1)]
			_ = by.SetWriteDeadline(time.Now().Add(2 * time.Second))
			_, _ = by.Write(part)
			r.Cover("layer", "B-bystander-with-partial-frame")
		}
	}
	longPause := lock && c.Seed%8 == 5 // a peer that stops for 650 ms in the middle of its first request
	a := mon.Attrs{"layer": "B", "slow_handler": slow}
	var got []byte
	var want []byte
	r.Eval(1)
	if lock {
		for j, f := range frames {
			var cuts []int
			p := 0
			for p < len(f)-1 && rng.Intn(3) != 0 {
				p += 1 + rng.Intn(len(f))
				if p < len(f) {
					cuts = append(cuts, p)
				}
			}
			if longPause && j == 0 && len(cuts) == 0 && len(f) > 9 {
				cuts = []int{8 + rng.Intn(len(f)-8)}
			}
			for si, seg := range srvx.Split(f, cuts) {
				if longPause && j == 0 && si == 1 {
					time.Sleep(650 * time.Millisecond)
					r.Cover("layer", "B-650ms-pause-inside-request")
				}
				_ = cli.SetWriteDeadline(time.Now().Add(2 * time.Second))
				if _, err := cli.Write(seg); err != nil {
					r.Violate(c, "server-closed-connection", a, fmt.Sprintf("request %d fc%d cut %v: write failed: %v", j, c.FCs[j], cuts, err))
					return
				}
			}
			rep, err := srvx.ReadN(cli, len(ref[j]), 2*time.Second)
			got = append(got, rep...)
			want = append(want, ref[j]...)
			if !bytes.Equal(rep, ref[j]) {
				kind := "lockstep-reply-wrong"
				if len(rep) < len(ref[j]) && errors.Is(err, errTimeout(err)) && bytes.HasPrefix(ref[j], rep) {
					kind = "lockstep-reply-missing"
				}
				r.Violate(c, kind, a, fmt.Sprintf("lock-step request %d (fc%d, % x) sent with cuts %v: got % x (err %v), want % x", j, c.FCs[j], head(f), cuts, head(rep), err, head(ref[j])))
				return
			}
		}
	} else {
		var all []byte
		for j, f := range frames {
			all = append(all, f...)
			want = append(want, ref[j]...)
		}
		var cuts []int
		p := 0
		for p < len(all)-1 {
			p += 1 + rng.Intn(1+[]int{5, 20, 280}[rng.Intn(3)])
			if p < len(all) {
				cuts = append(cuts, p)
			}
		}
		segs := srvx.Split(all, cuts)
		// no segment may exceed the server's 300-byte read buffer, otherwise one write is not one read
		var fine [][]byte
		for _, sg := range segs {
			for len(sg) > 300 {
				fine = append(fine, sg[:300])
				sg = sg[300:]
			}
			fine = append(fine, sg)
		}
		if burst {
			fine = [][]byte{all}
		}
		done := make(chan []byte, 1)
		go func() {
			b, _ := srvx.ReadN(cli, len(want), 2*time.Second)
			done <- b
		}()
		for _, seg := range fine {
			_ = cli.SetWriteDeadline(time.Now().Add(2 * time.Second))
			if _, err := cli.Write(seg); err != nil {
				break
			}
		}
		got = <-done
		if !bytes.Equal(got, want) {
			kind := "pipelined-stream-wrong"
			if bytes.HasPrefix(want, got) {
				kind = "pipelined-reply-withheld"
			}
			r.Violate(c, kind, a, fmt.Sprintf("pipelined stream fc%v cuts %v: received %d bytes % x, want %d bytes % x", c.FCs, brief(cuts), len(got), head(got), len(want), head(want)))
			return
		}
	}
	if extra := srvx.Drain(cli, 30*time.Millisecond); len(extra) > 0 {
		r.Violate(c, "surplus-bytes", a, fmt.Sprintf("after all replies the server sent %d more bytes: % x", len(extra), head(extra)))
	}
	r.Distinct(mon.Mix(h, 0xB, uint64(c.Seed)))
	r.Sample(map[string]any{"layer": "B", "fcs": c.FCs, "lockstep": lock, "reply_bytes": len(want)})
}

func errTimeout(err error) error { return err }

// runVerySlow: one request answered normally, then a second one sent in four parts nine seconds apart (27 s in all,
// longer than the server's 25 s idle timeout; each pause far shorter). Nothing is sent before it is complete, its reply
// follows the last part.
func runVerySlow(c *Case, r *mon.Rec, rng *rand.Rand, frames [][]byte, ref [][]byte) {
	dev := simdev.New(devSeed(c), "srv")
	l := srvx.NewMemListener()
	s := &server.Server{OnErrorFunc: func(error) {}, WriteTimeout: 2 * time.Second}
	ctx, cancel := context.WithCancel(context.Background())
	defer cancel()
	served := make(chan error, 1)
	go func() { served <- s.Serve(ctx, l, devHandler(c, dev)) }()
	defer func() {
		sctx, sc := context.WithTimeout(context.Background(), 3*time.Second)
		_ = s.Shutdown(sctx)
		sc()
	}()
	a := mon.Attrs{"layer": "B", "very_slow": true}
	cli, _, err := l.Dial(2 * time.Second)
	if err != nil {
		r.Inconclusive("very-slow: cannot connect: " + err.Error())
		return
	}
	defer cli.Close()
	r.Eval(1)
	r.Cover("layer", "B-request-dribbling-in-over-27s")
	_ = cli.SetWriteDeadline(time.Now().Add(2 * time.Second))
	if _, err := cli.Write(frames[0]); err != nil {
		r.Inconclusive("very-slow: write: " + err.Error())
		return
	}
	if rep, _ := srvx.ReadN(cli, len(ref[0]), 3*time.Second); !bytes.Equal(rep, ref[0]) {
		r.Violate(c, "lockstep-reply-wrong", a, fmt.Sprintf("first (whole) request: got % x want % x", head(rep), head(ref[0])))
		return
	}
	f := frames[1]
	q := len(f) / 4
	parts := [][]byte{f[:q], f[q : 2*q], f[2*q : 3*q], f[3*q:]}
	for i, p := range parts {
		if i > 0 {
			time.Sleep(9 * time.Second)
		}
		if early := srvx.Drain(cli, 20*time.Millisecond); len(early) > 0 {
			r.Violate(c, "surplus-bytes", a, fmt.Sprintf("before part %d of the slow request was sent the server had sent % x", i, head(early)))
			return
		}
		_ = cli.SetWriteDeadline(time.Now().Add(2 * time.Second))
		if _, err := cli.Write(p); err != nil {
			r.Violate(c, "server-closed-connection", a, fmt.Sprintf("slow request (4 parts, 9 s apart): writing part %d failed: %v - the connection was receiving bytes all along, every pause far below the idle timeout", i, err))
			return
		}
	}
	rep, rerr := srvx.ReadN(cli, len(ref[1]), 3*time.Second)
	if !bytes.Equal(rep, ref[1]) {
		r.Violate(c, "lockstep-reply-missing", a, fmt.Sprintf("request % x sent in 4 parts 9 s apart: got % x (err %v), want % x", head(f), head(rep), rerr, head(ref[1])))
	}
	r.Distinct(mon.Mix(0x5100, uint64(c.Seed)))
}

// runL: real TCP over loopback. Segmentation is suggested (TCP_NODELAY + pauses), not controlled, so only the
// stream-level oracle applies: the bytes received equal the reference reply stream, nothing more, nothing less.
func runL(c *Case, r *mon.Rec, rng *rand.Rand, frames [][]byte, ref [][]byte, h uint64) {
	dev := simdev.New(devSeed(c), "srv")
	s := &server.Server{OnErrorFunc: func(error) {}, WriteTimeout: 2 * time.Second}
	addrCh := make(chan net.Addr, 1)
	s.OnServeFunc = func(a net.Addr) { addrCh <- a }
	ctx, cancel := context.WithCancel(context.Background())
	defer cancel()
	served := make(chan error, 1)
	go func() { served <- s.ListenAndServe(ctx, "127.0.0.1:0", devHandler(c, dev)) }()
	var addr net.Addr
	select {
	case addr = <-addrCh:
	case err := <-served:
		r.Cover("layer", "L-unavailable: cannot listen on loopback: "+fmt.Sprint(err)) // cross-check only: skipped, not a verdict
		return
	case <-time.After(3 * time.Second):
		r.Cover("layer", "L-unavailable: server did not start")
		return
	}
	defer func() {
		sctx, sc := context.WithTimeout(context.Background(), 3*time.Second)
		_ = s.Shutdown(sctx)
		sc()
	}()
	cli, err := net.DialTimeout("tcp", addr.String(), 2*time.Second)
	if err != nil {
		r.Cover("layer", "L-unavailable: dial: "+err.Error())
		return
	}
	defer cli.Close()
	if tc, ok := cli.(*net.TCPConn); ok {
		_ = tc.SetNoDelay(true)
	}
	var all, want []byte
	for j, f := range frames {
		all = append(all, f...)
		want = append(want, ref[j]...)
	}
	lock := rng.Intn(2) == 0
	r.Eval(1)
	var got []byte
	if lock {
		for j, f := range frames {
			cut := 1 + rng.Intn(len(f)-1)
			cli.Write(f[:cut])
			time.Sleep(time.Duration(1+rng.Intn(8)) * time.Millisecond)
			cli.Write(f[cut:])
			rep, _ := srvx.ReadN(cli, len(ref[j]), 3*time.Second)
			got = append(got, rep...)
			if !bytes.Equal(rep, ref[j]) {
				break
			}
		}
	} else {
		p := 0
		for p < len(all) {
			n := 1 + rng.Intn(40)
			if p+n > len(all) {
				n = len(all) - p
			}
			cli.Write(all[p : p+n])
			p += n
			if rng.Intn(3) == 0 {
				time.Sleep(time.Duration(1+rng.Intn(6)) * time.Millisecond)
			}
		}
		got, _ = srvx.ReadN(cli, len(want), 3*time.Second)
	}
	if !bytes.Equal(got, want) {
		r.Violate(c, "loopback-stream-wrong", mon.Attrs{"layer": "L", "lockstep": lock}, fmt.Sprintf("stream fc%v over loopback (lockstep=%v): received %d bytes % x, want %d bytes % x", c.FCs, lock, len(got), head(got), len(want), head(want)))
		return
	}
	if extra := srvx.Drain(cli, 30*time.Millisecond); len(extra) > 0 {
		r.Violate(c, "surplus-bytes", mon.Attrs{"layer": "L"}, fmt.Sprintf("% x", head(extra)))
	}
	r.Distinct(mon.Mix(h, 0x4C, uint64(c.Seed)))
	r.Cover("layer", "L-loopback")
}

// Package c01: encoded requests are exactly the ADUs the Modbus specification defines.
package c01

import (
	"bytes"
	"fmt"
	"math/rand"
	"sync"

	"github.com/aldas/go-modbus-client/packet"
	"verif/libx"
	"verif/mon"
	"verif/specref"
)

// Case: one sweep along an axis for a function/framing.
type Case struct {
	Kind    string `json:"kind"` // qty | fc15 | fc16 | fc23r | fc23w | single | tid | unit
	FC      uint8  `json:"fc"`
	Framing int    `json:"framing"`
	Addr    uint16 `json:"addr"`
	Unit    uint8  `json:"unit"`
	TID     uint16 `json:"tid"`
	Lo      int    `json:"lo"`
	Hi      int    `json:"hi"`
	Fixed   int    `json:"fixed,omitempty"` // fc23: the other quantity
	Seed    int64  `json:"seed"`
}

var acc sync.Map // "fc/framing" -> *accCount

type accCount struct {
	mu   sync.Mutex
	a, b int64
}

func Spec() *mon.Spec {
	return &mon.Spec{
		ID:      "C01",
		RuleAdd: "Later additions (break-drill rounds 4-17, DESIGN.md section 14): the exported MBAPHeader.ProtocolID field is set and must not reach the wire; constructor arguments are sub-slices with sentinel tails and must come back untouched; quantity sweeps at both ends of the address space; every frame Bytes() handed out is kept and re-read after later encodes.",
		Level:   "exploration",
		Rule: "every call packet.New<F>Request{TCP,RTU}(args) is recorded; accepted => Bytes() must equal the reference encoder's ADU byte for byte, the request must be legal per the specification's limits and <=260/256 bytes. " +
			"FC1-4: every quantity 0..65535 x framing x boundary/PRNG address,unit,tid. FC15: every coil count 0..2100 (+ sampled to 70000) with 5 patterns. FC16: every data length 0..520. FC23: every read quantity 0..65535 and every write length 0..520 x boundary read quantities. FC5/6/17: unit/address/value sweeps; all 256 unit ids; boundary tids (thorough: all 65536 for one request per function). " +
			"distinct key = (fc, framing, quantity or payload length, accepted?); rejected calls count as evaluations but only accepted ones and boundary rejections are non-trivial.",
		Assumptions: []string{"reference encoder specref (validated against the specification's worked examples)",
			"FC6 is only called with 2-byte data; FC5 takes a bool so only the two legal values are expressible"},
		NewCase:    func() any { return &Case{} },
		Gen:        gen,
		Run:        run,
		Finish:     finish,
		SelfTest:   specref.SelfTest,
		Exhaustive: true,
	}
}

func gen(g *mon.Gen) {
	rng := g.Rng
	combos := g.Pick(4, 24)
	for _, fr := range []int{0, 1} {
		for _, fc := range []uint8{1, 2, 3, 4} {
			for k := 0; k < combos; k++ {
				for lo := 0; lo < 65536; lo += 8192 {
					g.Emit(&Case{Kind: "qty", FC: fc, Framing: fr, Addr: libx.U16(rng), Unit: libx.U8(rng), TID: libx.U16(rng), Lo: lo, Hi: lo + 8191})
				}
			}
		}
		// the ends of the address space with the low quantities (0 included) and the ones around the limits: address
		// arithmetic that only misbehaves at start 0 or when start+quantity reaches 65536
		for _, fc := range []uint8{1, 2, 3, 4} {
			for _, addr := range []uint16{0, 1, 65535, 65534, 65411, 63536, 63535} {
				g.Emit(&Case{Kind: "qty", FC: fc, Framing: fr, Addr: addr, Unit: libx.U8(rng), TID: libx.U16(rng), Lo: 0, Hi: 2100})
				g.Emit(&Case{Kind: "qty", FC: fc, Framing: fr, Addr: addr, Unit: libx.U8(rng), TID: libx.U16(rng), Lo: 65400, Hi: 65535})
			}
		}
		for k := 0; k < g.Pick(4, 24); k++ {
			for lo := 0; lo <= 2100; lo += 300 {
				g.Emit(&Case{Kind: "fc15", FC: 15, Framing: fr, Addr: libx.U16(rng), Unit: libx.U8(rng), TID: libx.U16(rng), Lo: lo, Hi: min(lo+299, 2100), Seed: rng.Int63()})
			}
			g.Emit(&Case{Kind: "fc15", FC: 15, Framing: fr, Addr: libx.U16(rng), Unit: libx.U8(rng), TID: libx.U16(rng), Lo: -1, Seed: rng.Int63()}) // sampled big counts
		}
		for k := 0; k < g.Pick(8, 100); k++ {
			g.Emit(&Case{Kind: "fc16", FC: 16, Framing: fr, Addr: libx.U16(rng), Unit: libx.U8(rng), TID: libx.U16(rng), Lo: 0, Hi: 520, Seed: rng.Int63()})
		}
		for k := 0; k < g.Pick(2, 8); k++ {
			for _, w := range []int{1, 2, 60, 120, 121} {
				for lo := 0; lo < 65536; lo += 16384 {
					g.Emit(&Case{Kind: "fc23r", FC: 23, Framing: fr, Addr: libx.U16(rng), Unit: libx.U8(rng), TID: libx.U16(rng), Lo: lo, Hi: lo + 16383, Fixed: w, Seed: rng.Int63()})
				}
			}
		}
		for _, rq := range []int{0, 1, 2, 100, 123, 124, 125, 126, 127, 255, 256, 65535} {
			g.Emit(&Case{Kind: "fc23w", FC: 23, Framing: fr, Addr: libx.U16(rng), Unit: libx.U8(rng), TID: libx.U16(rng), Lo: 0, Hi: 520, Fixed: rq, Seed: rng.Int63()})
		}
		for _, fc := range []uint8{5, 6, 17} {
			for k := 0; k < g.Pick(12, 200); k++ {
				g.Emit(&Case{Kind: "single", FC: fc, Framing: fr, Seed: rng.Int63()})
			}
		}
		for _, fc := range specref.FCs {
			g.Emit(&Case{Kind: "unit", FC: fc, Framing: fr, Seed: rng.Int63()})
		}
	}
	for _, fc := range specref.FCs {
		if g.Thorough() {
			for lo := 0; lo < 65536; lo += 8192 {
				g.Emit(&Case{Kind: "tid", FC: fc, Lo: lo, Hi: lo + 8191, Seed: rng.Int63()})
			}
		} else {
			g.Emit(&Case{Kind: "tid", FC: fc, Lo: -1, Seed: rng.Int63()})
		}
	}
}

func count(fc uint8, fr specref.Framing, accepted bool) {
	k := fmt.Sprintf("fc%d/%s", fc, fr)
	v, _ := acc.LoadOrStore(k, &accCount{})
	p := v.(*accCount)
	p.mu.Lock()
	if accepted {
		p.a++
	} else {
		p.b++
	}
	p.mu.Unlock()
}

// A frame handed out by Bytes() is the caller's: it is queued, logged, retried. What later calls encode must not change it.
type keptFrame struct {
	got, snap []byte
	desc      string
}

var kept sync.Map // *Case -> *[]keptFrame

func retain(c *Case, r *mon.Rec, got []byte, desc string) {
	v, _ := kept.LoadOrStore(c, &[]keptFrame{})
	l := v.(*[]keptFrame)
	*l = append(*l, keptFrame{got, append([]byte{}, got...), desc})
	if len(*l) > 24 {
		checkKept(c, r, (*l)[:1])
		*l = (*l)[1:]
	}
}

func checkKept(c *Case, r *mon.Rec, l []keptFrame) {
	for _, k := range l {
		if !bytes.Equal(k.got, k.snap) {
			r.Violate(c, "earlier-frame-changed-by-later-encode", mon.Attrs{}, fmt.Sprintf("the frame Bytes() returned for %s read % x when it was handed out and % x after later requests were encoded", k.desc, head(k.snap, 40), head(k.got, 40)))
			return
		}
	}
}

// one observes one constructor call. what/value name the swept argument for the signature.
func one(c *Case, r *mon.Rec, fr specref.Framing, q specref.Req, what string, value int) {
	var req packet.Request
	var err error
	if p, txt := mon.Catch(func() { req, err = libx.NewRequest(fr, q) }); p {
		r.Violate(c, "constructor-panics", mon.Attrs{"fc": int(q.FC), "framing": fr.String(), "what": what, "value": value}, txt)
		return
	}
	accepted := err == nil
	count(q.FC, fr, accepted)
	if !accepted {
		if req != nil {
			r.Violate(c, "error-with-value", mon.Attrs{"fc": int(q.FC), "framing": fr.String()}, fmt.Sprintf("%s=%d: err=%v but request %T non-nil", what, value, err, req))
		}
		return
	}
	r.Distinct(mon.Mix(uint64(q.FC), uint64(fr), uint64(value), uint64(len(q.Data)), 1))
	var got []byte
	if p, txt := mon.Catch(func() { got = req.Bytes() }); p {
		r.Violate(c, "bytes-panics", mon.Attrs{"fc": int(q.FC), "framing": fr.String(), "what": what, "value": value}, txt)
		return
	}
	retain(c, r, got, fmt.Sprintf("fc%d %s %s=%d", q.FC, fr, what, value))
	legal := q.Legal()
	if !legal {
		r.Violate(c, "accepts-illegal", mon.Attrs{"fc": int(q.FC), "framing": fr.String(), "what": what, "value": value},
			fmt.Sprintf("constructor accepted %s=%d (addr %d, data %d bytes), outside the specification's limits; frame is %d bytes: % x", what, value, q.Addr, len(q.Data), len(got), head(got, 24)))
	}
	if legal && len(got) > specref.MaxADU(fr) {
		r.Violate(c, "frame-too-long", mon.Attrs{"fc": int(q.FC), "framing": fr.String(), "len": len(got)}, fmt.Sprintf("%s=%d", what, value))
	}
	// layout is compared even for illegal-but-accepted requests when the reference layout is well defined (byte count fits one byte)
	if len(q.Data) <= 255 {
		want := q.Encode(fr)
		if !bytes.Equal(got, want) {
			r.Violate(c, "bytes-differ", mon.Attrs{"fc": int(q.FC), "framing": fr.String(), "where": diffClass(fr, got, want)},
				fmt.Sprintf("%s=%d unit=%d tid=%d addr=%d: got % x want % x", what, value, q.Unit, q.TID, q.Addr, head(got, 40), head(want, 40)))
		}
		if fn := req.FunctionCode(); fn != q.FC {
			r.Violate(c, "functioncode-differs", mon.Attrs{"fc": int(q.FC), "framing": fr.String()}, fmt.Sprint(fn))
		}
		// the header has an exported ProtocolID field; Modbus has one protocol id, whatever a caller left in that field
		// (value%8: a few per sweep are enough)
		if fr == specref.TCP && value%8 == 0 && libx.SetProtocolID(req, uint16(1+value%65535)) {
			if g2 := req.Bytes(); len(g2) >= 4 && (g2[2] != 0 || g2[3] != 0) {
				r.Violate(c, "protocol-id-not-zero", mon.Attrs{"fc": int(q.FC)}, fmt.Sprintf("request with MBAPHeader.ProtocolID=%d encodes as % x", 1+value%65535, head(g2, 12)))
			}
			r.Cover("protocol-id-field-set", "tcp")
		}
	}
}

func head(b []byte, n int) []byte {
	if len(b) > n {
		return b[:n]
	}
	return b
}

func diffClass(fr specref.Framing, got, want []byte) string {
	if len(got) != len(want) {
		return "length"
	}
	i := 0
	for i < len(got) && got[i] == want[i] {
		i++
	}
	if fr == specref.TCP {
		switch {
		case i < 2:
			return "tid"
		case i < 4:
			return "protocol"
		case i < 6:
			return "mbap-length"
		case i == 6:
			return "unit"
		case i == 7:
			return "function"
		}
		return fmt.Sprintf("pdu+%d", min(i-7, 12))
	}
	if i >= len(got)-2 {
		return "crc"
	}
	if i == 0 {
		return "unit"
	}
	if i == 1 {
		return "function"
	}
	return fmt.Sprintf("pdu+%d", min(i-1, 12))
}

func pattern(rng *rand.Rand, n int, k int) []byte {
	b := make([]byte, (n+7)/8)
	switch k {
	case 0:
	case 1:
		for i := range b {
			b[i] = 0xFF
		}
	case 2:
		if n > 0 {
			i := rng.Intn(n)
			b[i/8] = 1 << uint(i%8)
		}
	case 3:
		for i := range b {
			b[i] = 0x55
		}
	case 5: // run-length structured: long runs of equal coils starting on and off the byte grid
		return specref.PackCoils(libx.RunPattern(rng, n))
	default:
		rng.Read(b)
	}
	if m := n % 8; m != 0 {
		b[len(b)-1] &= byte(1<<uint(m)) - 1
	}
	return b
}

func run(ci any, r *mon.Rec) {
	c := ci.(*Case)
	defer func() {
		// the constructors are given sub-slices of larger buffers (libx.NewRequest): the caller's memory must come back untouched
		if m := libx.TakeArgMutation(); m != "" {
			r.Violate(c, "constructor-mutates-argument", mon.Attrs{}, m)
		}
		if v, ok := kept.LoadAndDelete(c); ok {
			checkKept(c, r, *v.(*[]keptFrame))
		}
	}()
	fr := specref.Framing(c.Framing)
	rng := rand.New(rand.NewSource(c.Seed))
	n := 0
	switch c.Kind {
	case "qty":
		for q := c.Lo; q <= c.Hi; q++ {
			one(c, r, fr, specref.Req{FC: c.FC, Unit: c.Unit, TID: c.TID, Addr: c.Addr, Qty: uint16(q)}, "qty", q)
			n++
		}
	case "fc15":
		if c.Lo >= 0 {
			for cnt := c.Lo; cnt <= c.Hi; cnt++ {
				for k := 0; k < 7; k++ { // patterns 5 and 6: run-length structured (two draws)
					kk := k
					if kk == 6 {
						kk = 5
					}
					one(c, r, fr, specref.Req{FC: 15, Unit: c.Unit, TID: c.TID, Addr: c.Addr, Qty: uint16(cnt), Data: pattern(rng, cnt, kk)}, "coils", cnt)
					n++
				}
			}
		} else {
			for i := 0; i < 40; i++ {
				cnt := 2101 + rng.Intn(68000)
				if i < 6 {
					cnt = []int{65535, 65536, 65537, 65536 + 8, 65536 + 1968, 2048}[i]
				}
				// Qty field is 16 bit: a count above 65535 has no encoding at all, the constructor must refuse
				q := specref.Req{FC: 15, Unit: c.Unit, TID: c.TID, Addr: c.Addr, Qty: uint16(cnt), Data: pattern(rng, cnt, 4)}
				var err error
				var req packet.Request
				coils := libx.Coils(q.Data, cnt)
				if fr == specref.TCP {
					req, err = nilReq(packet.NewWriteMultipleCoilsRequestTCP(c.Unit, c.Addr, coils))
				} else {
					req, err = nilReq(packet.NewWriteMultipleCoilsRequestRTU(c.Unit, c.Addr, coils))
				}
				n++
				count(15, fr, err == nil)
				if err == nil {
					r.Violate(c, "accepts-illegal", mon.Attrs{"fc": 15, "framing": fr.String(), "what": "coils", "value": cnt}, fmt.Sprintf("%d coils accepted; frame %d bytes", cnt, len(req.Bytes())))
				}
			}
		}
	case "fc16":
		for l := c.Lo; l <= c.Hi; l++ {
			d := libx.RandBytes(rng, l)
			q := specref.Req{FC: 16, Unit: c.Unit, TID: c.TID, Addr: c.Addr, Qty: uint16(l / 2), Data: d}
			if l%2 == 1 {
				// odd payload: no legal encoding; must be refused
				req, err := libx.NewRequest(fr, q)
				n++
				count(16, fr, err == nil)
				if err == nil {
					r.Violate(c, "accepts-illegal", mon.Attrs{"fc": 16, "framing": fr.String(), "what": "odd-bytes", "value": l}, fmt.Sprintf("% x", head(req.Bytes(), 24)))
				}
				continue
			}
			one(c, r, fr, q, "regs", l/2)
			n++
		}
	case "fc23r":
		d := libx.RandBytes(rng, 2*c.Fixed)
		for q := c.Lo; q <= c.Hi; q++ {
			one(c, r, fr, specref.Req{FC: 23, Unit: c.Unit, TID: c.TID, Addr: c.Addr, Qty: uint16(q), WAddr: uint16(q * 7), WQty: uint16(c.Fixed), Data: d}, "rqty", q)
			n++
		}
	case "fc23w":
		for l := c.Lo; l <= c.Hi; l++ {
			d := libx.RandBytes(rng, l)
			q := specref.Req{FC: 23, Unit: c.Unit, TID: c.TID, Addr: c.Addr, Qty: uint16(c.Fixed), WAddr: libx.U16(rng), WQty: uint16(l / 2), Data: d}
			if l%2 == 1 {
				req, err := libx.NewRequest(fr, q)
				n++
				count(23, fr, err == nil)
				if err == nil {
					r.Violate(c, "accepts-illegal", mon.Attrs{"fc": 23, "framing": fr.String(), "what": "odd-bytes", "value": l}, fmt.Sprintf("% x", head(req.Bytes(), 24)))
				}
				continue
			}
			what := "wregs"
			if !(c.Fixed >= 1 && c.Fixed <= 125) {
				what = "rqty+wregs" // read quantity itself illegal: acceptance is reported under the read quantity
				q2 := q
				one(c, r, fr, q2, "rqty", c.Fixed)
				n++
				continue
			}
			one(c, r, fr, q, what, l/2)
			n++
		}
	case "single":
		for i := 0; i < 2000; i++ {
			q := specref.Req{FC: c.FC, Unit: libx.U8(rng), TID: libx.U16(rng), Addr: libx.U16(rng)}
			if c.FC == 5 {
				q.Value = []uint16{0, 0xFF00}[rng.Intn(2)]
			} else if c.FC == 6 {
				q.Value = libx.U16(rng)
			}
			one(c, r, fr, q, "addr", int(q.Addr))
			n++
		}
	case "unit":
		base := libx.LegalReq(rng, c.FC, 0.5)
		for u := 0; u < 256; u++ {
			q := base
			q.Unit = uint8(u)
			one(c, r, fr, q, "unit", u)
			n++
		}
	case "tid":
		base := libx.LegalReq(rng, c.FC, 0.5)
		if c.Lo < 0 {
			for _, t := range []int{0, 1, 0xFF, 0x100, 0x7FFF, 0x8000, 0xFFFE, 0xFFFF, rng.Intn(65536), rng.Intn(65536)} {
				q := base
				q.TID = uint16(t)
				one(c, r, specref.TCP, q, "tid", t)
				n++
			}
		} else {
			for t := c.Lo; t <= c.Hi; t++ {
				q := base
				q.TID = uint16(t)
				one(c, r, specref.TCP, q, "tid", t)
				n++
			}
		}
	}
	r.Eval(n)
	r.CoverN("constructor-calls", fmt.Sprintf("%s fc%d %s", c.Kind, c.FC, fr), int64(n))
	if c.Lo <= 1 {
		r.Sample(c)
	}
}

func nilReq[T packet.Request](v T, err error) (packet.Request, error) {
	if err != nil {
		return nil, err
	}
	return v, nil
}

func finish(r *mon.Rec) {
	rates := map[string]any{}
	for _, fr := range []specref.Framing{specref.TCP, specref.RTU} {
		for _, fc := range specref.FCs {
			k := fmt.Sprintf("fc%d/%s", fc, fr)
			v, ok := acc.Load(k)
			if !ok {
				continue // replay / partial
			}
			p := v.(*accCount)
			rates[k] = map[string]int64{"accepted": p.a, "rejected": p.b}
			if p.a == 0 && r.Seed >= 0 && len(rates) > 0 && fullRun(r) {
				r.Inconclusive("constructor for " + k + " accepted nothing: nothing to check")
			}
		}
	}
	r.Note("acceptance", rates)
}

func fullRun(r *mon.Rec) bool {
	n := 0
	acc.Range(func(_, _ any) bool { n++; return true })
	return n == 20
}

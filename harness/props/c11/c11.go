// Package c11: coil lookup follows the Modbus bit layout and inverts the library's packing.
package c11

import (
	"bytes"
	"fmt"
	"math/rand"

	modbus "github.com/aldas/go-modbus-client"
	"github.com/aldas/go-modbus-client/packet"
	"verif/libx"
	"verif/mon"
	"verif/simdev"
	"verif/specref"
)

type Case struct {
	Kind    string `json:"kind"` // lookup | readback | extract | pack
	FC      uint8  `json:"fc"`
	Framing int    `json:"framing"`
	Len     int    `json:"len"` // payload bytes / coil count
	Start   int    `json:"start"`
	Seed    int64  `json:"seed"`
}

func Spec() *mon.Spec {
	return &mon.Spec{
		ID:      "C11",
		RuleAdd: "Later additions (rounds 4-17): hand-built shuffled requests with unreachable coils and a stray register field, extracted twice; the summary error of lenient extraction; value-form responses; extraction must accept the response of its own request.",
		Level:   "exploration",
		Rule: "lookup: FC1/FC2 responses (TCP/RTU) parsed by the library from reference-encoded frames, every payload length 1..250 x boundary/PRNG start; IsCoilSet / IsInputSet at every in-range address, both out-of-range sides, 0 and 65535: in range => bit (i mod 8) of payload[i div 8], out of range => error. " +
			"pack: CoilsToBytes(pattern) == reference LSB-first packing for every length 1..1968. readback: pattern of n coils -> NewWriteMultipleCoilsRequest -> Bytes() -> simulated device (reference decoder) -> device memory must equal the pattern; NewReadCoilsRequest -> device reply -> library parse -> IsCoilSet(i) must equal device memory. extract: Builder.Coil fields -> ReadCoils/ReadDiscreteInputs requests -> device -> ExtractFields: each value == device memory. " +
			"A payload whose lookups ALL equal the byte-reversed model is reported under kind coil-bytes-reversed, anything else under coil-wrong-bit. distinct key=(kind, fc, framing, payload length, start class).",
		Assumptions: []string{"coil layout per specref.CoilBit (validated against the specification's FC1 example CD 6B 05)"},
		NewCase:     func() any { return &Case{} },
		Gen:         gen,
		Run:         run,
		SelfTest:    specref.SelfTest,
		Exhaustive:  true,
	}
}

func gen(g *mon.Gen) {
	rng := g.Rng
	for fr := 0; fr < 2; fr++ {
		for _, fc := range []uint8{1, 2} {
			for l := 1; l <= 250; l++ {
				ss := []int{0, 1, 65535 - 8*l + 1, 65536 - 8*l, 65535, 65530, rng.Intn(65536)}
				if !g.Thorough() {
					ss = []int{ss[l%3], ss[3+l%3], ss[6]}
				}
				for _, s := range ss {
					if s < 0 {
						s = 0
					}
					g.Emit(&Case{Kind: "lookup", FC: fc, Framing: fr, Len: l, Start: s, Seed: rng.Int63()})
				}
			}
		}
		for n := 1; n <= 1968; n += g.Pick(3, 1) {
			g.Emit(&Case{Kind: "readback", Framing: fr, Len: n, Start: []int{0, 65536 - n, rng.Intn(65536 - n)}[n%3], Seed: rng.Int63()})
		}
		for i := 0; i < g.Pick(2000, 100000); i++ {
			g.Emit(&Case{Kind: "extract", FC: uint8(1 + rng.Intn(2)), Framing: fr, Seed: rng.Int63()})
		}
	}
	for n := 0; n <= 1968; n++ {
		g.Emit(&Case{Kind: "pack", Len: n, Seed: rng.Int63()})
	}
	for _, n := range []int{1969, 2000, 2047, 2048, 4096, 65535, 65536, 70000} {
		g.Emit(&Case{Kind: "pack", Len: n, Seed: rng.Int63()})
	}
}

type coilResp interface {
	IsCoilSet(startAddress uint16, coilAddress uint16) (bool, error)
}

func parseCoils(fc uint8, fr specref.Framing, frame []byte) (coilResp, packet.Response, error) {
	var resp packet.Response
	var err error
	if fr == specref.TCP {
		resp, err = packet.ParseTCPResponse(frame)
	} else {
		resp, err = packet.ParseRTUResponseWithCRC(frame)
	}
	if err != nil {
		return nil, nil, err
	}
	cr, ok := resp.(coilResp)
	if !ok {
		return nil, nil, fmt.Errorf("%T has no IsCoilSet", resp)
	}
	return cr, resp, nil
}

func startCls(start, bits int) string {
	switch {
	case start == 0:
		return "0"
	case start+bits >= 65536:
		return "reaches-65535"
	}
	return "other"
}

// lookups checks all addresses of one payload.
func lookups(c *Case, r *mon.Rec, fn string, f func(start, addr uint16) (bool, error), payload []byte, start int, truth func(i int) bool) {
	bits := 8 * len(payload)
	type miss struct {
		i   int
		got bool
	}
	var misses []miss
	allReversed := true
	n := 0
	for i := 0; i < bits && start+i <= 65535; i++ {
		var got bool
		var err error
		if p, txt := mon.Catch(func() { got, err = f(uint16(start), uint16(start+i)) }); p {
			r.Violate(c, "lookup-panics", mon.Attrs{"fn": fn}, fmt.Sprintf("start %d address %d payload %d bytes: %s", start, start+i, len(payload), txt))
			return
		}
		n++
		if err != nil {
			r.Violate(c, "in-range-error", mon.Attrs{"fn": fn, "start": startCls(start, bits)}, fmt.Sprintf("start %d address %d (coil %d of %d): %v", start, start+i, i, bits, err))
			continue
		}
		if got != truth(i) {
			misses = append(misses, miss{i, got})
		}
		if got != (payload[len(payload)-1-i/8]&(1<<uint(i%8)) != 0) {
			allReversed = false
		}
	}
	if len(misses) > 0 {
		m := misses[0]
		if allReversed {
			r.Violate(c, "coil-bytes-reversed", mon.Attrs{"fn": fn, "multi_byte": len(payload) > 1},
				fmt.Sprintf("payload (%d bytes) % x start %d: %d of %d lookups differ from the Modbus layout, all equal the byte-reversed layout; e.g. coil %d -> %v", len(payload), head(payload), start, len(misses), n, m.i, m.got))
		} else {
			r.Violate(c, "coil-wrong-bit", mon.Attrs{"fn": fn}, fmt.Sprintf("payload (%d bytes) % x start %d: coil %d (address %d) -> %v, layout says %v (%d of %d wrong, not the byte-reversed pattern)", len(payload), head(payload), start, m.i, start+m.i, m.got, !m.got, len(misses), n))
		}
	}
	// out of range on both sides
	var outs []int
	for _, d := range []int{1, 2, 8, 9, 255, 256} {
		outs = append(outs, start-d, start+bits-1+d)
	}
	outs = append(outs, 0, 65535, start-32768, start+32768, start+65535)
	for _, a := range outs {
		if a < 0 || a > 65535 || (a >= start && a < start+bits) {
			continue
		}
		var got bool
		var err error
		if p, txt := mon.Catch(func() { got, err = f(uint16(start), uint16(a)) }); p {
			r.Violate(c, "lookup-panics", mon.Attrs{"fn": fn}, fmt.Sprintf("start %d address %d payload %d bytes: %s", start, a, len(payload), txt))
			continue
		}
		n++
		if err == nil {
			side := "beyond"
			if a < start {
				side = "before"
			}
			r.Violate(c, "out-of-range-value", mon.Attrs{"fn": fn, "side": side}, fmt.Sprintf("payload %d bytes start %d: address %d is outside [%d,%d) but returned %v", len(payload), start, a, start, start+bits, got))
		}
	}
	r.Eval(n)
}

func head(b []byte) []byte {
	if len(b) > 24 {
		return b[:24]
	}
	return b
}

func run(ci any, r *mon.Rec) {
	c := ci.(*Case)
	defer func() {
		// the constructors are given sub-slices of larger buffers (libx.NewRequest): the caller's memory must come back untouched
		if m := libx.TakeArgMutation(); m != "" {
			r.Violate(c, "constructor-mutates-argument", mon.Attrs{}, m)
		}
	}()
	fr := specref.Framing(c.Framing)
	rng := rand.New(rand.NewSource(c.Seed))
	switch c.Kind {
	case "lookup":
		payload := libx.RandBytes(rng, c.Len)
		if rng.Intn(4) == 0 { // asymmetric structured payload: every byte different, never a palindrome
			for i := range payload {
				payload[i] = byte(i*37 + 1)
			}
		}
		frame := specref.Resp{FC: c.FC, Unit: libx.U8(rng), TID: libx.U16(rng), Data: payload}.Encode(fr)
		cr, resp, err := parseCoils(c.FC, fr, frame)
		if err != nil {
			r.Violate(c, "cannot-parse", mon.Attrs{"fc": int(c.FC)}, err.Error())
			return
		}
		truth := func(i int) bool { return specref.CoilBit(payload, i) }
		lookups(c, r, fmt.Sprintf("fc%d.IsCoilSet", c.FC), cr.IsCoilSet, payload, c.Start, truth)
		if in, ok := resp.(interface {
			IsInputSet(uint16, uint16) (bool, error)
		}); ok {
			lookups(c, r, "fc2.IsInputSet", in.IsInputSet, payload, c.Start, truth)
		}
		// the same payload in hand-built response values (a server fills only what Bytes() needs; the length field may be
		// unset or stale): lookups are defined by the payload, not by that field
		if c.Len <= 64 {
			for _, bl := range []uint8{0, uint8(c.Len), uint8(c.Len / 2), 255} {
				pl := append([]byte{}, payload...)
				if c.FC == 1 {
					lookups(c, r, "fc1.literal.IsCoilSet", packet.ReadCoilsResponse{UnitID: 1, CoilsByteLength: bl, Data: pl}.IsCoilSet, pl, c.Start, func(i int) bool { return specref.CoilBit(pl, i) })
				} else {
					lookups(c, r, "fc2.literal.IsInputSet", packet.ReadDiscreteInputsResponse{UnitID: 1, InputsByteLength: bl, Data: pl}.IsInputSet, pl, c.Start, func(i int) bool { return specref.CoilBit(pl, i) })
				}
			}
		}
		r.Distinct(mon.Mix(1, uint64(c.FC), uint64(fr), uint64(c.Len), mon.HashS(startCls(c.Start, 8*c.Len))))
		if c.Len%50 == 1 {
			r.Sample(c)
		}
	case "pack":
		coils := make([]bool, c.Len)
		for i := range coils {
			coils[i] = rng.Intn(2) == 0
		}
		if c.Len > 0 && rng.Intn(3) == 0 {
			for i := range coils {
				coils[i] = i == c.Len-1 || i == 0 || i == 256
			}
		}
		packOne := func(coils []bool) {
			var got []byte
			if p, txt := mon.Catch(func() { got = packet.CoilsToBytes(coils) }); p {
				r.Violate(c, "pack-panics", mon.Attrs{}, txt)
				return
			}
			r.Eval(1)
			if want := specref.PackCoils(coils); !bytes.Equal(got, want) {
				r.Violate(c, "packing-differs", mon.Attrs{"over_256": len(coils) > 256, "runs": true}, fmt.Sprintf("%d coils (run-length structured): CoilsToBytes % x want % x", len(coils), head(got), head(want)))
			}
		}
		if c.Len > 0 && c.Len <= 2100 {
			for k := 0; k < 4; k++ {
				packOne(libx.RunPattern(rng, c.Len))
			}
		}
		var got []byte
		if p, txt := mon.Catch(func() { got = packet.CoilsToBytes(coils) }); p {
			r.Violate(c, "pack-panics", mon.Attrs{}, txt)
			return
		}
		r.Eval(1)
		if want := specref.PackCoils(coils); !bytes.Equal(got, want) {
			r.Violate(c, "packing-differs", mon.Attrs{"over_256": c.Len > 256}, fmt.Sprintf("%d coils: CoilsToBytes % x want % x", c.Len, head(got), head(want)))
		}
		r.Distinct(mon.Mix(2, uint64(c.Len)))
	case "readback":
		runReadback(c, r, fr, rng)
	case "extract":
		runExtract(c, r, fr, rng)
	}
}

func runReadback(c *Case, r *mon.Rec, fr specref.Framing, rng *rand.Rand) {
	n := c.Len
	pattern := make([]bool, n)
	switch rng.Intn(5) {
	case 4:
		pattern = libx.RunPattern(rng, n)
	case 0:
		for i := range pattern {
			pattern[i] = i%3 == 0
		}
	case 1:
		pattern[rng.Intn(n)] = true
		pattern[n-1] = true
	default:
		for i := range pattern {
			pattern[i] = rng.Intn(2) == 0
		}
	}
	unit := libx.U8(rng)
	dev := simdev.New(uint64(c.Seed), "dev")
	q := specref.Req{FC: 15, Unit: unit, TID: libx.U16(rng), Addr: uint16(c.Start), Qty: uint16(n), Data: specref.PackCoils(pattern)}
	wreq, err := libx.NewRequest(fr, q)
	if err != nil {
		r.Violate(c, "constructor-refuses-legal", mon.Attrs{"fc": 15}, err.Error())
		return
	}
	reply := dev.Serve(fr, wreq.Bytes())
	if reply == nil {
		r.Violate(c, "write-frame-undecodable", mon.Attrs{}, fmt.Sprintf("% x", head(wreq.Bytes())))
		return
	}
	if pr, _ := specref.DecodeResp(fr, reply); pr.Exception {
		r.Violate(c, "device-refuses-write", mon.Attrs{"code": int(pr.ExCode)}, fmt.Sprintf("%d coils at %d: exception %d for frame % x", n, c.Start, pr.ExCode, head(wreq.Bytes())))
		return
	}
	r.Eval(n)
	for i := 0; i < n; i++ {
		if dev.Coil(unit, simdev.Coils, c.Start+i) != pattern[i] {
			r.Violate(c, "write-side-wrong-coil", mon.Attrs{"over_256": i >= 256}, fmt.Sprintf("%d coils written at %d: device coil %d is %v, pattern says %v", n, c.Start, i, !pattern[i], pattern[i]))
			break
		}
	}
	// read back what the device holds now
	rq, err := libx.NewRequest(fr, specref.Req{FC: 1, Unit: unit, TID: libx.U16(rng), Addr: uint16(c.Start), Qty: uint16(n)})
	if err != nil {
		return
	}
	rreply := dev.Serve(fr, rq.Bytes())
	cr, _, err := parseCoils(1, fr, rreply)
	if err != nil {
		r.Violate(c, "cannot-parse", mon.Attrs{"fc": 1}, err.Error())
		return
	}
	pr, _ := specref.DecodeResp(fr, rreply)
	lookupsN(c, r, "readback.IsCoilSet", cr.IsCoilSet, pr.Data, c.Start, n, func(i int) bool { return dev.Coil(unit, simdev.Coils, c.Start+i) })
	r.Distinct(mon.Mix(3, uint64(fr), uint64(n)))
}

// lookupsN: like lookups but only the first n coils carry meaning (padding bits excluded).
func lookupsN(c *Case, r *mon.Rec, fn string, f func(start, addr uint16) (bool, error), payload []byte, start, n int, truth func(i int) bool) {
	wrong, rev := 0, true
	first := -1
	for i := 0; i < n; i++ {
		got, err := f(uint16(start), uint16(start+i))
		if err != nil {
			r.Violate(c, "in-range-error", mon.Attrs{"fn": fn, "start": startCls(start, n)}, fmt.Sprintf("start %d coil %d of %d: %v", start, i, n, err))
			return
		}
		if got != truth(i) {
			wrong++
			if first < 0 {
				first = i
			}
		}
		if got != (payload[len(payload)-1-i/8]&(1<<uint(i%8)) != 0) {
			rev = false
		}
	}
	r.Eval(n)
	if wrong > 0 {
		if rev {
			r.Violate(c, "coil-bytes-reversed", mon.Attrs{"fn": fn, "multi_byte": len(payload) > 1}, fmt.Sprintf("%d coils at %d read back: %d differ from device memory, all lookups equal the byte-reversed layout; first at coil %d", n, start, wrong, first))
		} else {
			r.Violate(c, "coil-wrong-bit", mon.Attrs{"fn": fn}, fmt.Sprintf("%d coils at %d read back: %d differ from device memory (not the byte-reversed pattern); first at coil %d", n, start, wrong, first))
		}
	}
}

func runExtract(c *Case, r *mon.Rec, fr specref.Framing, rng *rand.Rand) {
	dev := simdev.New(uint64(c.Seed), "dev:502")
	b := modbus.NewRequestBuilder("dev:502", libx.U8(rng))
	base := []int{0, 1000, 65000, 63600}[rng.Intn(4)]
	span := 1 + rng.Intn(1900)
	nf := 1 + rng.Intn(30)
	for i := 0; i < nf; i++ {
		a := base + rng.Intn(span)
		if a > 65535 {
			a = 65535
		}
		b.Add(b.Coil(uint16(a)).Name(fmt.Sprintf("c%d", i)))
	}
	var reqs []modbus.BuilderRequest
	var err error
	table := simdev.Coils
	switch {
	case c.FC == 1 && fr == specref.TCP:
		reqs, err = b.ReadCoilsTCP()
	case c.FC == 1:
		reqs, err = b.ReadCoilsRTU()
	case fr == specref.TCP:
		reqs, err = b.ReadDiscreteInputsTCP()
		table = simdev.Discrete
	default:
		reqs, err = b.ReadDiscreteInputsRTU()
		table = simdev.Discrete
	}
	if err != nil {
		r.Cover("extract-builder", "error")
		return
	}
	for _, rq := range reqs {
		reply := dev.Serve(fr, rq.Bytes())
		if reply == nil {
			r.Violate(c, "request-undecodable", mon.Attrs{}, fmt.Sprintf("% x", rq.Bytes()))
			continue
		}
		_, resp, err := parseCoils(c.FC, fr, reply)
		if err != nil {
			r.Violate(c, "cannot-parse", mon.Attrs{"fc": int(c.FC)}, err.Error())
			continue
		}
		pr, _ := specref.DecodeResp(fr, reply)
		if c.Seed%2 == 0 {
			resp = libx.ValueForm(resp) // callers hold responses by value as well as by pointer
		}
		vals, xerr := rq.ExtractFields(resp, true)
		r.Eval(len(vals) + 1)
		if len(vals) != len(rq.Fields) {
			r.Violate(c, "extract-refuses-response", mon.Attrs{"fn": "ExtractFields", "value_form": c.Seed%2 == 0}, fmt.Sprintf("%T handed to ExtractFields of the request it answers: %d values for %d fields, error %v", resp, len(vals), len(rq.Fields), xerr))
		}
		wrong, rev := 0, true
		for _, fv := range vals {
			if fv.Error != nil {
				r.Violate(c, "in-range-error", mon.Attrs{"fn": "ExtractFields", "start": "n/a"}, fmt.Sprintf("field %+v: %v (request start %d)", fv.Field, fv.Error, rq.StartAddress))
				continue
			}
			got, _ := fv.Value.(bool)
			i := int(fv.Field.Address) - int(rq.StartAddress)
			if got != dev.Coil(fv.Field.UnitID, table, int(fv.Field.Address)) {
				wrong++
			}
			if i >= 0 && i/8 < len(pr.Data) && got != (pr.Data[len(pr.Data)-1-i/8]&(1<<uint(i%8)) != 0) {
				rev = false
			}
		}
		_ = xerr
		// the same request with its field list in another order and with unreachable coils mixed in (a hand-built
		// BuilderRequest, as the library's documentation and tests construct them): every reachable coil still yields the
		// value it yielded above and no error, whatever failed before it in the list
		if len(vals) > 0 && len(vals) < 400 {
			base := map[uint16]any{}
			for _, fv := range vals {
				if fv.Error == nil {
					base[fv.Field.Address] = fv.Value
				}
			}
			hb := rq
			hb.Fields = append(modbus.Fields(nil), rq.Fields...)
			rng.Shuffle(len(hb.Fields), func(a, b int) { hb.Fields[a], hb.Fields[b] = hb.Fields[b], hb.Fields[a] })
			end := int(rq.StartAddress) + 8*len(pr.Data)
			var bad []uint16
			if rq.StartAddress > 0 {
				bad = append(bad, rq.StartAddress-1, uint16(rng.Intn(int(rq.StartAddress))))
			}
			if end < 65536 {
				bad = append(bad, uint16(end), uint16(end+rng.Intn(65536-end)))
			}
			unreachable := map[uint16]bool{}
			for _, ad := range bad {
				f := rq.Fields[0]
				f.Address = ad
				unreachable[ad] = true
				at := rng.Intn(len(hb.Fields) + 1)
				if rng.Intn(2) == 0 {
					at = 0 // first in the list: everything else comes after a failure
				}
				hb.Fields = append(hb.Fields[:at], append(modbus.Fields{f}, hb.Fields[at:]...)...)
			}
			// (hand-built lists may also carry a register-typed definition by mistake: whatever is reported for it, reading
			// must not rearrange the caller's list, and a second extraction must say the same as the first)
			if rng.Intn(3) == 0 {
				f := rq.Fields[0]
				f.Name, f.Type = "stray-register-field", modbus.FieldTypeUint16
				at := rng.Intn(len(hb.Fields) + 1)
				hb.Fields = append(hb.Fields[:at], append(modbus.Fields{f}, hb.Fields[at:]...)...)
			}
			before := append(modbus.Fields(nil), hb.Fields...)
			var v2 []modbus.FieldValue
			var x2 error
			pn, txt := mon.Catch(func() { v2, x2 = hb.ExtractFields(resp, true) })
			if !pn {
				// with continue-on-errors the call's own error is the summary a caller looks at first: it says "some field
				// failed" exactly when some returned value carries an error - wherever in the list that field stands
				failed := 0
				for _, fv := range v2 {
					if fv.Error != nil {
						failed++
					}
				}
				if (x2 != nil) != (failed > 0) {
					r.Violate(c, "lenient-error-summary-wrong", mon.Attrs{"fn": "ExtractFields", "failed_fields": failed > 0}, fmt.Sprintf("hand-built request with %d fields in shuffled order: %d returned values carry an error, the call itself returned error %v", len(hb.Fields), failed, x2))
				}
				var v3 []modbus.FieldValue
				mon.Catch(func() { v3, _ = hb.ExtractFields(resp, true) })
				same := len(v2) == len(v3)
				for i := 0; same && i < len(v2); i++ {
					same = v2[i].Field == v3[i].Field && v2[i].Value == v3[i].Value && (v2[i].Error == nil) == (v3[i].Error == nil)
				}
				for i := range before {
					if i >= len(hb.Fields) || before[i] != hb.Fields[i] {
						same = false
					}
				}
				if !same {
					r.Violate(c, "extraction-not-repeatable", mon.Attrs{"fn": "ExtractFields"}, fmt.Sprintf("hand-built request with %d fields: the second extraction from the same response differs from the first (%d vs %d values) or the request's field list changed", len(before), len(v2), len(v3)))
				}
				// the checks below are about coil fields only
				kept := v2[:0:0]
				for _, fv := range v2 {
					if fv.Field.Name != "stray-register-field" {
						kept = append(kept, fv)
					}
				}
				if len(kept) != len(v2) {
					n := 0
					for _, f := range hb.Fields {
						if f.Name != "stray-register-field" {
							hb.Fields[n] = f
							n++
						}
					}
					hb.Fields = hb.Fields[:n]
					v2 = kept
				}
			}
			if pn {
				r.Violate(c, "extract-panics", mon.Attrs{"fn": "ExtractFields", "hand_built": true}, txt)
			}
			r.Eval(len(v2))
			if !pn && len(v2) != len(hb.Fields) {
				r.Violate(c, "lenient-extract-drops-fields", mon.Attrs{"fn": "ExtractFields"}, fmt.Sprintf("%d fields in the request, %d values returned with continue-on-errors", len(hb.Fields), len(v2)))
			}
			for _, fv := range v2 {
				ad := fv.Field.Address
				switch {
				case unreachable[ad] && fv.Error == nil:
					r.Violate(c, "out-of-range-coil-without-error", mon.Attrs{"fn": "ExtractFields"}, fmt.Sprintf("coil %d lies outside the response (start %d, %d payload bytes) but came back as %v without an error", ad, rq.StartAddress, len(pr.Data), fv.Value))
				case !unreachable[ad] && fv.Error != nil:
					r.Violate(c, "in-range-error", mon.Attrs{"fn": "ExtractFields", "start": "hand-built"}, fmt.Sprintf("coil %d is inside the response (start %d, %d payload bytes); in a hand-built request with %d unreachable coils mixed in it came back with error: %v", ad, rq.StartAddress, len(pr.Data), len(bad), fv.Error))
				case !unreachable[ad] && fv.Value != base[ad]:
					r.Violate(c, "result-depends-on-field-order", mon.Attrs{"fn": "ExtractFields"}, fmt.Sprintf("coil %d: %v in the builder's order, %v in a shuffled hand-built request", ad, base[ad], fv.Value))
				}
			}
			r.Cover("extract", "hand-built-shuffled-with-unreachable")
		}
		if wrong > 0 {
			if rev {
				r.Violate(c, "coil-bytes-reversed", mon.Attrs{"fn": "ExtractFields", "multi_byte": len(pr.Data) > 1}, fmt.Sprintf("request start %d, %d fields: %d values differ from device memory, all equal the byte-reversed layout", rq.StartAddress, len(vals), wrong))
			} else {
				r.Violate(c, "coil-wrong-bit", mon.Attrs{"fn": "ExtractFields"}, fmt.Sprintf("request start %d, %d fields: %d values differ from device memory", rq.StartAddress, len(vals), wrong))
			}
		}
		r.Distinct(mon.Mix(4, uint64(c.FC), uint64(fr), uint64(len(pr.Data)), uint64(len(vals))))
	}
}

// Package c03: CRC-16 equals the Modbus CRC for every message and is enforced on RTU frames.
package c03

import (
	"bytes"
	"errors"
	"fmt"
	"math/rand"
	"sync"
	"sync/atomic"

	"github.com/aldas/go-modbus-client/packet"
	"verif/libx"
	"verif/mon"
	"verif/specref"
)

// Case kinds: sweep (all messages <=3 bytes with first byte B0), long (PRNG message), frames (encoder trailers), trailer (all 65536 trailers on one frame), errcube (all ErrorResponseRTU for one unit).
type Case struct {
	Kind string `json:"kind"`
	B0   int    `json:"b0,omitempty"`
	Seed int64  `json:"seed,omitempty"`
	Len  int    `json:"len,omitempty"`
	N    int    `json:"n,omitempty"`
	Unit int    `json:"unit,omitempty"`
	// trailer: the frame body (without CRC) and which parser family
	Body   []byte `json:"body,omitempty"`
	IsResp bool   `json:"is_resp,omitempty"`
}

var seen2 [65536]atomic.Bool // CRC16 values reached by 2-byte prefixes
var sweepDone atomic.Int64

func Spec() *mon.Spec {
	return &mon.Spec{
		ID:      "C03",
		RuleAdd: "Later additions (rounds 4-17): ErrorParseRTU emitters; acceptance implies CRC on length-changed frames; messages with spare capacity (the bytes behind them compared before and after the call); families m, m+00, m+0000 checksummed one right after the other; first CRC16 calls of a fresh process made concurrently.",
		Level:   "exploration",
		Rule: "sweep: every byte string of length 0..3 (2^24+65793 messages) through packet.CRC16, checked against the bit-serial reference, against the one-byte reference step applied to CRC16(prefix), and that 2-byte prefixes reach all 65536 register states (=> every state x byte transition exercised; exhaustive for that space). " +
			"long: PRNG messages of length 4..70000 (dense at 255..257 and 65535..65537) incl. split/continue check. frames: trailer of every RTU Bytes() of requests (constructors + struct literals), responses, ErrorResponseRTU and ErrorParseRTU (constructed and returned by the RTU request parsers) equals reference CRC low byte first. " +
			"trailer: for frames the CRC-less parser accepts, all 65536 trailer values: WithCRC parser succeeds iff trailer==CRC, refusal is ErrInvalidCRC. distinct key = (kind, length class or fc, first byte / unit).",
		Assumptions: []string{"reference CRC is the bit-serial shift register in specref (different algorithm shape), validated against 4 published vectors",
			"exhaustive:true refers to the length<=3 message space (all state x byte transitions of the fold); longer messages are sampled"},
		NewCase:    func() any { return &Case{} },
		Gen:        gen,
		Run:        run,
		Finish:     finish,
		SelfTest:   specref.SelfTest,
		Exhaustive: true,
	}
}

func gen(g *mon.Gen) {
	g.Emit(&Case{Kind: "empty"})
	for b0 := 0; b0 < 256; b0++ {
		g.Emit(&Case{Kind: "sweep", B0: b0})
	}
	nLong := g.Pick(6000, 200000)
	for i := 0; i < nLong; i++ {
		var l int
		switch g.Rng.Intn(6) {
		case 0:
			l = 4 + g.Rng.Intn(60)
		case 1:
			l = 250 + g.Rng.Intn(12)
		case 2:
			l = 65530 + g.Rng.Intn(12)
		case 3:
			l = 4 + g.Rng.Intn(70000)
		default:
			l = 4 + g.Rng.Intn(600)
		}
		if g.Thorough() && l > 3000 && g.Rng.Intn(4) != 0 {
			l = 4 + g.Rng.Intn(3000)
		}
		g.Emit(&Case{Kind: "long", Seed: g.Rng.Int63(), Len: l})
	}
	nFr := g.Pick(1200, 20000)
	for i := 0; i < nFr; i++ {
		g.Emit(&Case{Kind: "frames", Seed: g.Rng.Int63(), N: 50})
	}
	if g.Thorough() {
		for u := 0; u < 256; u++ {
			g.Emit(&Case{Kind: "errcube", Unit: u})
		}
	} else {
		for _, u := range []int{0, 1, 17, 127, 128, 255} {
			g.Emit(&Case{Kind: "errcube", Unit: u})
		}
	}
	// two-field cubes: for one unit id, every value of a 16-bit field (address / value) of several frame shapes: the emitted
	// trailer must be the CRC and the WithCRC parser must accept the library's own frame (needles such as "CRC == 0x0000" or
	// "CRC == CR LF" are somewhere in this space for every shape)
	units := []int{0, 1, 17, 58, 247, 255}
	if g.Thorough() {
		units = units[:0]
		for u := 0; u < 256; u++ {
			units = append(units, u)
		}
	} else {
		for k := 0; k < 10; k++ {
			units = append(units, g.Rng.Intn(256))
		}
	}
	for _, u := range units {
		g.Emit(&Case{Kind: "cube", Unit: u, Seed: g.Rng.Int63()})
	}
	// cold start: in a fresh process, 12 goroutines make the process's very first CRC16 / RTU Bytes() calls at the same moment
	for i := 0; i < g.Pick(24, 400); i++ {
		g.Emit(&Case{Kind: "coldstart", Seed: g.Rng.Int63()})
	}
	// trailer sweeps: one frame per (fc, request/response, size class)
	nTr := g.Pick(10, 60)
	rng := rand.New(rand.NewSource(g.Rng.Int63()))
	for _, fc := range specref.FCs {
		for i := 0; i < nTr; i++ {
			size := []float64{0, 0.5, 0.5, 0.5, 1}[i%5]
			if size == 1 && !g.Thorough() && i >= 5 {
				size = 0.5
			}
			q := libx.LegalReq(rng, fc, size)
			if (fc == 1 || fc == 2) && q.Qty > 125 { // keep to what the library's own request parsers accept; C09 covers the rest
				q.Qty = uint16(1 + rng.Intn(125))
			}
			fr := q.Encode(specref.RTU)
			g.Emit(&Case{Kind: "trailer", Body: fr[:len(fr)-2]})
			p := libx.ReplyFor(rng, q)
			if (fc == 1 || fc == 2) && size != 1 {
				p.Data = libx.RandBytes(rng, 1+rng.Intn(250))
			}
			fr = p.Encode(specref.RTU)
			g.Emit(&Case{Kind: "trailer", Body: fr[:len(fr)-2], IsResp: true})
		}
	}
	// exception responses through the response WithCRC parser
	for i := 0; i < g.Pick(6, 60); i++ {
		p := specref.Resp{FC: specref.FCs[rng.Intn(10)], Unit: libx.U8(rng), Exception: true, ExCode: libx.U8(rng)}
		fr := p.Encode(specref.RTU)
		g.Emit(&Case{Kind: "trailer", Body: fr[:len(fr)-2], IsResp: true})
	}
}

func refStep(st uint16, b byte) uint16 { return specref.CRCFrom(st, []byte{b}) }

func run(ci any, r *mon.Rec) {
	c := ci.(*Case)
	switch c.Kind {
	case "empty":
		r.Eval(1)
		r.DistinctS("empty")
		if v := packet.CRC16(nil); v != 0xFFFF {
			r.Violate(c, "crc-mismatch", mon.Attrs{"len": 0}, fmt.Sprintf("CRC16(empty)=%#04x want 0xffff", v))
		}
		if v := packet.CRC16([]byte{}); v != 0xFFFF {
			r.Violate(c, "crc-mismatch", mon.Attrs{"len": 0}, fmt.Sprintf("CRC16([]byte{})=%#04x want 0xffff", v))
		}
	case "sweep":
		runSweep(c, r)
	case "long":
		runLong(c, r)
	case "frames":
		runFrames(c, r)
	case "errcube":
		runErrCube(c, r)
	case "trailer":
		runTrailer(c, r)
	case "cube":
		runCube(c, r)
	case "coldstart":
		if !r.InChild() {
			r.RunInFreshProcess([]any{c}) // the same case, executed as the first thing a new process does
			return
		}
		runColdStart(c, r)
	}
}

// runColdStart runs in a fresh child process before anything else has touched the checksum code.
func runColdStart(c *Case, r *mon.Rec) {
	rng := rand.New(rand.NewSource(c.Seed))
	const G = 12
	msgs := make([][]byte, G)
	for i := range msgs {
		msgs[i] = libx.RandBytes(rng, 1+rng.Intn(60))
		for k := range msgs[i] {
			msgs[i][k] = byte(rng.Intn(256))
		}
	}
	start := make(chan struct{})
	var wg sync.WaitGroup
	got := make([]uint16, G)
	frames := make([][]byte, G)
	for g := 0; g < G; g++ {
		wg.Add(1)
		go func(g int) {
			defer wg.Done()
			<-start
			if g%2 == 0 {
				got[g] = packet.CRC16(msgs[g])
			} else {
				frames[g] = packet.ErrorResponseRTU{UnitID: msgs[g][0], Function: 3, Code: 2}.Bytes()
			}
		}(g)
	}
	close(start)
	wg.Wait()
	r.Eval(G)
	r.Distinct(mon.Mix(0xC01D, uint64(c.Seed)))
	for g := 0; g < G; g++ {
		if g%2 == 0 {
			if w := specref.CRC(msgs[g]); got[g] != w {
				r.Violate(c, "crc-mismatch", mon.Attrs{"how": "concurrent-first-use"}, fmt.Sprintf("one of the first CRC16 calls of a fresh process, made concurrently by %d goroutines: CRC16(% x)=%#04x want %#04x", G, msgs[g], got[g], w))
				return
			}
		} else if fr := frames[g]; len(fr) == 5 {
			if w := specref.CRC(fr[:3]); fr[3] != byte(w) || fr[4] != byte(w>>8) {
				r.Violate(c, "trailer-not-crc", mon.Attrs{"what": "exception", "how": "concurrent-first-use"}, fmt.Sprintf("frame % x emitted among the first calls of a fresh process: reference CRC %#04x", fr, w))
				return
			}
		}
	}
}

// runCube: all 65536 values of a 16-bit field for one unit id, for several RTU frame shapes.
func runCube(c *Case, r *mon.Rec) {
	rng := rand.New(rand.NewSource(c.Seed))
	u := uint8(c.Unit)
	fixed := uint16(rng.Intn(65536))
	regs := []byte{byte(rng.Intn(256)), byte(rng.Intn(256)), byte(rng.Intn(256)), byte(rng.Intn(256))}
	bad := 0
	n := 0
	emit := func(what string, fr []byte, isResp bool) {
		n++
		if len(fr) < 4 {
			return
		}
		w := specref.CRC(fr[:len(fr)-2])
		if fr[len(fr)-2] != byte(w) || fr[len(fr)-1] != byte(w>>8) {
			bad++
			if bad <= 3 {
				r.Violate(c, "trailer-not-crc", mon.Attrs{"what": what}, fmt.Sprintf("frame % x: trailer %02x %02x, reference CRC %#04x", fr, fr[len(fr)-2], fr[len(fr)-1], w))
			}
			return
		}
		var err error
		if isResp {
			_, err = packet.ParseRTUResponseWithCRC(fr)
		} else {
			_, err = packet.ParseRTURequestWithCRC(fr)
		}
		var exc *packet.ErrorResponseRTU
		if err != nil && isResp && fr[1]&0x80 != 0 && errors.As(err, &exc) {
			err = nil // an exception frame that passed the CRC gate is reported as the typed exception
		}
		if err != nil {
			bad++
			if bad <= 3 {
				r.Violate(c, "withcrc-rejects-good", mon.Attrs{"resp": isResp, "fc": int(fr[1] & 0x7f), "cube": true}, fmt.Sprintf("the library's own frame % x (CRC %#04x) is rejected: %v", fr, w, err))
			}
		}
	}
	for v := 0; v < 65536; v++ {
		x := uint16(v)
		if q, err := packet.NewReadHoldingRegistersRequestRTU(u, x, 2); err == nil {
			emit("request-fc3", q.Bytes(), false)
		}
		if q, err := packet.NewWriteSingleRegisterRequestRTU(u, fixed, []byte{byte(v >> 8), byte(v)}); err == nil {
			emit("request-fc6", q.Bytes(), false)
		}
		if q, err := packet.NewWriteMultipleRegistersRequestRTU(u, x, regs[:2+2*(v&1)]); err == nil {
			emit("request-fc16", q.Bytes(), false)
		}
		emit("response-fc3", packet.ReadHoldingRegistersResponseRTU{ReadHoldingRegistersResponse: packet.ReadHoldingRegistersResponse{UnitID: u, RegisterByteLen: 2, Data: []byte{byte(v >> 8), byte(v)}}}.Bytes(), true)
		emit("response-fc6", packet.WriteSingleRegisterResponseRTU{WriteSingleRegisterResponse: packet.WriteSingleRegisterResponse{UnitID: u, Address: fixed, Data: [2]byte{byte(v >> 8), byte(v)}}}.Bytes(), true)
		if r.Thorough() || v%4 == 0 {
			if q, err := packet.NewReadCoilsRequestRTU(u, x, 9); err == nil {
				emit("request-fc1", q.Bytes(), false)
			}
			if q, err := packet.NewWriteSingleCoilRequestRTU(u, x, v&1 == 0); err == nil {
				emit("request-fc5", q.Bytes(), false)
			}
			emit("response-fc16", packet.WriteMultipleRegistersResponseRTU{WriteMultipleRegistersResponse: packet.WriteMultipleRegistersResponse{UnitID: u, StartAddress: x, RegisterCount: 2}}.Bytes(), true)
			emit("exception", packet.ErrorResponseRTU{UnitID: u, Function: uint8(v >> 8 & 0x7f), Code: uint8(v)}.Bytes(), true)
		}
	}
	r.Eval(n)
	r.Distinct(mon.Mix(7, uint64(c.Unit)))
	r.CoverN("kind", "cube-frames", int64(n))
}

func runSweep(c *Case, r *mon.Rec) {
	buf := make([]byte, 3)
	buf[0] = byte(c.B0)
	n := 0
	bad := 0
	report := func(m []byte, got, want uint16, how string) {
		bad++
		if bad <= 3 {
			r.Violate(c, "crc-mismatch", mon.Attrs{"len": len(m), "how": how}, fmt.Sprintf("CRC16(% x)=%#04x want %#04x (%s)", m, got, want, how))
		}
	}
	c1 := packet.CRC16(buf[:1])
	n++
	if w := specref.CRC(buf[:1]); c1 != w {
		report(buf[:1], c1, w, "reference")
	}
	if w := refStep(0xFFFF, buf[0]); c1 != w {
		report(buf[:1], c1, w, "step-from-init")
	}
	for b1 := 0; b1 < 256; b1++ {
		buf[1] = byte(b1)
		c2 := packet.CRC16(buf[:2])
		n++
		if w := refStep(c1, buf[1]); c2 != w {
			report(buf[:2], c2, w, "step-from-prefix")
		}
		if w := specref.CRC(buf[:2]); c2 != w {
			report(buf[:2], c2, w, "reference")
		}
		seen2[c2].Store(true)
		for b2 := 0; b2 < 256; b2++ {
			buf[2] = byte(b2)
			c3 := packet.CRC16(buf[:3])
			n++
			if w := refStep(c2, buf[2]); c3 != w {
				report(buf[:3], c3, w, "step-from-prefix")
			}
		}
		r.Distinct(mon.Mix(1, uint64(c.B0), uint64(b1)))
	}
	r.Eval(n)
	r.CoverN("kind", "sweep-messages", int64(n))
	sweepDone.Add(1)
	if c.B0%64 == 0 {
		r.Sample(map[string]any{"kind": "sweep", "first_byte": c.B0, "messages": n, "mismatches": bad})
	}
}

func finish(r *mon.Rec) {
	if sweepDone.Load() != 256 {
		return // replay / partial
	}
	cnt := 0
	for i := range seen2 {
		if seen2[i].Load() {
			cnt++
		}
	}
	r.Eval(1)
	r.Note("states_reached_by_2_byte_prefixes", cnt)
	r.Note("state_x_byte_transitions_checked", 65536*256)
	if cnt != 65536 {
		r.Violate(&Case{Kind: "sweep-all"}, "crc-state-coverage", mon.Attrs{"reached": cnt}, "2-byte prefixes do not reach all 65536 CRC states: the fold is not a bijection on the first two bytes, so it is not the Modbus CRC")
	}
}

func runLong(c *Case, r *mon.Rec) {
	rng := rand.New(rand.NewSource(c.Seed))
	m := libx.RandBytes(rng, c.Len)
	got := packet.CRC16(m)
	want := specref.CRC(m)
	r.Eval(2)
	lc := c.Len
	if lc > 600 {
		lc = 600 + lc/1000
	}
	r.Distinct(mon.Mix(2, uint64(lc), uint64(m[0])))
	r.Cover("long-length-class", lenClass(c.Len))
	if got != want {
		r.Violate(c, "crc-mismatch", mon.Attrs{"len": c.Len, "how": "reference"}, fmt.Sprintf("len %d: got %#04x want %#04x first bytes % x", c.Len, got, want, m[:4]))
	}
	k := rng.Intn(c.Len + 1)
	ca := packet.CRC16(m[:k])
	if w := specref.CRCFrom(ca, m[k:]); got != w {
		r.Violate(c, "crc-mismatch", mon.Attrs{"len": c.Len, "how": "split-continue"}, fmt.Sprintf("len %d split %d: CRC16(whole)=%#04x, reference continued from CRC16(prefix)=%#04x gives %#04x", c.Len, k, got, ca, w))
	}
	// the message is the caller's memory, and so is whatever stands behind it in the same array (the trailer of the frame
	// being checked, for one): computing a checksum reads, it does not write - whatever the length's parity or size
	for _, n := range []int{c.Len, c.Len - 1, 17 + rng.Intn(40), 16 + 2*rng.Intn(20) + 1} {
		if n < 0 || n > c.Len {
			continue
		}
		buf := make([]byte, n+8)
		copy(buf, m[:n])
		for i := n; i < len(buf); i++ {
			buf[i] = 0xE0 + byte(i-n)
		}
		before := append([]byte{}, buf...)
		g := packet.CRC16(buf[:n])
		r.Eval(1)
		if !bytes.Equal(buf, before) {
			r.Violate(c, "crc16-writes-to-caller-memory", mon.Attrs{"odd_length": n%2 == 1}, fmt.Sprintf("CRC16 of a %d-byte message that has spare capacity behind it: the 8 bytes behind the message read % x before the call and % x after it", n, before[n:], buf[n:]))
			break
		}
		if w := specref.CRC(m[:n]); g != w {
			r.Violate(c, "crc-mismatch", mon.Attrs{"len": n, "how": "reference"}, fmt.Sprintf("len %d (message with spare capacity): got %#04x want %#04x", n, g, w))
			break
		}
	}
	// history: a short message, the same message followed by one, two, three zero bytes, and back - one call right after
	// the other. Each checksum is a function of its message alone
	base := libx.RandBytes(rng, rng.Intn(7))
	var fam [][]byte
	for z := 0; z <= 3 && len(base)+z <= 9; z++ {
		fam = append(fam, append(append([]byte{}, base...), make([]byte, z)...))
	}
	for i := len(fam) - 2; i >= 0; i-- {
		fam = append(fam, fam[i])
	}
	for i, fm := range fam {
		r.Eval(1)
		if g, w := packet.CRC16(fm), specref.CRC(fm); g != w {
			prev := []byte(nil)
			if i > 0 {
				prev = fam[i-1]
			}
			r.Violate(c, "crc-mismatch", mon.Attrs{"len": len(fm), "how": "after-a-message-that-differs-in-trailing-zeros"}, fmt.Sprintf("CRC16(% x)=%#04x want %#04x when computed right after CRC16(% x)", fm, g, w, prev))
			break
		}
	}
	r.Sample(map[string]any{"kind": "long", "len": c.Len, "crc": got, "split": k})
}

func lenClass(n int) string {
	switch {
	case n < 64:
		return "4..63"
	case n < 250:
		return "64..249"
	case n < 262:
		return "250..261"
	case n < 3000:
		return "262..2999"
	case n < 65530:
		return "3000..65529"
	case n < 65542:
		return "65530..65541"
	}
	return ">=65542"
}

// acceptImpliesCRC: whatever byte string a WithCRC entry point accepts ends with the CRC of the rest. Fed with frames the
// encoders emitted, cut short by one and by two bytes (a frame that lost its trailer) and extended by one byte.
func acceptImpliesCRC(c *Case, r *mon.Rec, what string, fr []byte, isResp bool) {
	for _, in := range [][]byte{fr[:len(fr)-1], fr[:len(fr)-2], append(append([]byte{}, fr...), fr[0])} {
		if len(in) < 3 {
			continue
		}
		var err error
		if pn, _ := mon.Catch(func() {
			if isResp {
				_, err = packet.ParseRTUResponseWithCRC(append([]byte{}, in...))
			} else {
				_, err = packet.ParseRTURequestWithCRC(append([]byte{}, in...))
			}
		}); pn {
			continue // C10's business
		}
		r.Eval(1)
		var exc *packet.ErrorResponseRTU
		accepted := err == nil || (isResp && errors.As(err, &exc))
		w := specref.CRC(in[:len(in)-2])
		if accepted && (in[len(in)-2] != byte(w) || in[len(in)-1] != byte(w>>8)) {
			r.Violate(c, "withcrc-accepts-bad", mon.Attrs{"resp": isResp, "how": "length-changed"}, fmt.Sprintf("%s: % x (the emitted frame with %d bytes cut off / added) accepted although its last two bytes are not the CRC of the rest", what, in, len(fr)-len(in)))
		}
	}
}

func checkTrailer(c *Case, r *mon.Rec, what string, fr []byte) {
	r.Eval(1)
	if len(fr) < 4 {
		r.Violate(c, "rtu-frame-too-short", mon.Attrs{"what": what}, fmt.Sprintf("% x", fr))
		return
	}
	w := specref.CRC(fr[:len(fr)-2])
	if fr[len(fr)-2] != byte(w) || fr[len(fr)-1] != byte(w>>8) {
		r.Violate(c, "trailer-not-crc", mon.Attrs{"what": what}, fmt.Sprintf("frame % x: trailer %02x %02x, reference CRC %#04x (low byte first expected)", fr, fr[len(fr)-2], fr[len(fr)-1], w))
	}
}

func runFrames(c *Case, r *mon.Rec) {
	rng := rand.New(rand.NewSource(c.Seed))
	for i := 0; i < c.N; i++ {
		fc := specref.FCs[rng.Intn(10)]
		size := []float64{0, 0.5, 0.5, 1}[rng.Intn(4)]
		q := libx.LegalReq(rng, fc, size)
		req, err := libx.NewRequest(specref.RTU, q)
		if err == nil {
			fr := req.Bytes()
			checkTrailer(c, r, fmt.Sprintf("request-fc%d", fc), fr)
			acceptImpliesCRC(c, r, fmt.Sprintf("request-fc%d", fc), fr, false)
			r.Distinct(mon.Mix(3, uint64(fc), uint64(len(fr))))
		}
		// response encoders (struct literals, as a server built on the library would fill them)
		p := libx.ReplyFor(rng, q)
		if resp := LibResponseRTU(p); resp != nil {
			fr := resp.Bytes()
			checkTrailer(c, r, fmt.Sprintf("response-fc%d", fc), fr)
			acceptImpliesCRC(c, r, fmt.Sprintf("response-fc%d", fc), fr, true)
			r.Distinct(mon.Mix(4, uint64(fc), uint64(len(fr))))
			if i == 0 {
				r.Sample(map[string]any{"kind": "frames", "fc": fc, "response_frame_len": len(fr)})
			}
		}
		// hand-built values with a stale / unset length field: whatever frame Bytes() emits must still end with the CRC of the rest
		if fc <= 4 || fc == 23 {
			for _, d := range []int{-2, 2, -len(p.Data)} {
				p2 := p
				n := len(p.Data) + d
				if n < 0 || n > 250 {
					continue
				}
				if resp := LibResponseRTU(p2); resp != nil {
					setByteLen(resp, uint8(n))
					var fr []byte
					if pn, txt := mon.Catch(func() { fr = resp.Bytes() }); pn {
						r.Cover("inconsistent-literal", "bytes-panics:"+txt[:min(len(txt), 40)])
						continue
					}
					checkTrailer(c, r, fmt.Sprintf("response-fc%d-inconsistent-length-field", fc), fr)
				}
			}
		}
		e := packet.ErrorResponseRTU{UnitID: libx.U8(rng), Function: fc, Code: libx.U8(rng)}
		checkTrailer(c, r, "exception", e.Bytes())
		// the sendable parse errors: the ones the library's own RTU request parsers hand to a server for an
		// out-of-range request, and the constructor a server uses for its own catch-all replies
		bads := []specref.Req{{FC: fc, Unit: q.Unit, Addr: q.Addr}}
		switch fc {
		case 1, 2:
			bads = append(bads, specref.Req{FC: fc, Unit: q.Unit, Addr: q.Addr, Qty: 2001})
		case 3, 4:
			bads = append(bads, specref.Req{FC: fc, Unit: q.Unit, Addr: q.Addr, Qty: 126})
		case 5:
			bads = append(bads, specref.Req{FC: fc, Unit: q.Unit, Addr: q.Addr, Value: 0x1234})
		case 23:
			// every refusal branch of its own: read quantity, then write quantity (read quantity in range)
			bads = append(bads, specref.Req{FC: 23, Unit: q.Unit, Addr: q.Addr, Qty: 126, WAddr: 1, WQty: 1, Data: []byte{0, 1}},
				specref.Req{FC: 23, Unit: q.Unit, Addr: q.Addr, Qty: 3, WAddr: 1, WQty: 0},
				specref.Req{FC: 23, Unit: q.Unit, Addr: q.Addr, Qty: 3, WAddr: 1, WQty: 122, Data: libx.RandBytes(rng, 244)})
		}
		for _, bad := range bads {
			rfr := bad.Encode(specref.RTU)
			if rfr == nil {
				continue
			}
			_, perr := packet.ParseRTURequestWithCRC(rfr)
			// whatever sendable error the RTU parsers hand back (anything with a Bytes() method is what a server puts on
			// the serial line): an RTU frame, i.e. ending with the CRC of what precedes it
			if se, ok := perr.(interface{ Bytes() []byte }); ok && !libx.IsNilValue(perr) {
				checkTrailer(c, r, "parse-error-from-parser", se.Bytes())
				r.Cover("parse-error-emitter", fmt.Sprintf("parser-fc%d", fc))
			}
		}
		code := []uint8{0, 1, 2, 3, 4, libx.U8(rng)}[rng.Intn(6)]
		pe := packet.NewErrorParseRTU(code, "x")
		checkTrailer(c, r, "parse-error-constructed", pe.Bytes())
		pe.Packet.UnitID, pe.Packet.Function = libx.U8(rng), fc
		checkTrailer(c, r, "parse-error-constructed", pe.Bytes())
		r.Cover("parse-error-emitter", "constructor")
	}
	r.Cover("kind", "frames-batches")
}

func runErrCube(c *Case, r *mon.Rec) {
	n := 0
	for fc := 0; fc < 256; fc++ { // 128..255: a caller (gateway) that copies the raw function byte, error bit included, into the literal
		for code := 0; code < 256; code++ {
			e := packet.ErrorResponseRTU{UnitID: uint8(c.Unit), Function: uint8(fc), Code: uint8(code)}
			fr := e.Bytes()
			n++
			if w := (packet.ErrorParseRTU{Packet: e}).Bytes(); len(w) != 5 || w[3] != byte(specref.CRC(w[:3])) || w[4] != byte(specref.CRC(w[:3])>>8) {
				r.Violate(c, "trailer-not-crc", mon.Attrs{"what": "parse-error-wrapper"}, fmt.Sprintf("unit %d fc %d code %d -> % x", c.Unit, fc, code, w))
			}
			if len(fr) != 5 {
				r.Violate(c, "rtu-frame-too-short", mon.Attrs{"what": "exception"}, fmt.Sprintf("% x", fr))
				continue
			}
			w := specref.CRC(fr[:3])
			// (for Function >= 128 the function byte the encoder chooses is its own business - the pinned code adds 0x80 and
			// wraps -; this property is about the trailer)
			if fr[0] != uint8(c.Unit) || (fc < 128 && fr[1] != uint8(fc)|0x80) || fr[2] != uint8(code) || fr[3] != byte(w) || fr[4] != byte(w>>8) {
				r.Violate(c, "trailer-not-crc", mon.Attrs{"what": "exception"}, fmt.Sprintf("unit %d fc %d code %d -> % x (reference crc %#04x)", c.Unit, fc, code, fr, w))
			}
		}
		r.Distinct(mon.Mix(5, uint64(c.Unit), uint64(fc)))
	}
	r.Eval(n)
	r.CoverN("kind", "exception-frames", int64(n))
}

func runTrailer(c *Case, r *mon.Rec) {
	fr := make([]byte, len(c.Body)+2)
	copy(fr, c.Body)
	want := specref.CRC(c.Body)
	// precondition: CRC-less parser accepts the frame with the right trailer
	fr[len(fr)-2], fr[len(fr)-1] = byte(want), byte(want>>8)
	var baseErr error
	if c.IsResp {
		_, baseErr = packet.ParseRTUResponse(fr)
	} else {
		_, baseErr = packet.ParseRTURequest(fr)
	}
	isExc := false
	var ex *packet.ErrorResponseRTU
	if baseErr != nil && errors.As(baseErr, &ex) {
		isExc = true // exception frames: the CRC-less parser "accepts" by returning the typed exception
	}
	if baseErr != nil && !isExc {
		r.Cover("trailer-skipped", fmt.Sprintf("resp=%v fc=%d", c.IsResp, c.Body[1]))
		return
	}
	bad := 0
	for t := 0; t < 65536; t++ {
		fr[len(fr)-2], fr[len(fr)-1] = byte(t), byte(t>>8)
		var err error
		var v any
		if c.IsResp {
			v, err = packet.ParseRTUResponseWithCRC(fr)
		} else {
			v, err = packet.ParseRTURequestWithCRC(fr)
		}
		match := uint16(t) == want
		ok := err == nil
		if isExc {
			var e2 *packet.ErrorResponseRTU
			ok = err != nil && errors.As(err, &e2) // accepted = frame got through the CRC gate
		}
		switch {
		case match && !ok:
			bad++
			if bad <= 2 {
				r.Violate(c, "withcrc-rejects-good", mon.Attrs{"resp": c.IsResp, "fc": int(c.Body[1] & 0x7f)}, fmt.Sprintf("frame % x with correct trailer rejected: %v", fr, err))
			}
		case !match && ok:
			bad++
			if bad <= 2 {
				r.Violate(c, "withcrc-accepts-bad", mon.Attrs{"resp": c.IsResp, "fc": int(c.Body[1] & 0x7f)}, fmt.Sprintf("frame % x: trailer %#04x != crc %#04x but parser returned %T", fr, t, want, v))
			}
		case !match && !errors.Is(err, packet.ErrInvalidCRC):
			bad++
			if bad <= 2 {
				r.Violate(c, "withcrc-wrong-refusal", mon.Attrs{"resp": c.IsResp, "fc": int(c.Body[1] & 0x7f)}, fmt.Sprintf("frame % x: bad trailer refused with %v, want ErrInvalidCRC", fr, err))
			}
		}
	}
	r.Eval(65536)
	r.Distinct(mon.Mix(6, uint64(c.Body[1]), uint64(len(c.Body)), b2u(c.IsResp)))
	r.Cover("trailer-frames", fmt.Sprintf("resp=%v fc=%d", c.IsResp, c.Body[1]))
	r.Sample(map[string]any{"kind": "trailer", "frame_without_crc": fmt.Sprintf("% x", trunc(c.Body, 24)), "len": len(c.Body) + 2, "is_response": c.IsResp, "trailers_tried": 65536, "deviations": bad})
}

func trunc(b []byte, n int) []byte {
	if len(b) > n {
		return b[:n]
	}
	return b
}

func b2u(b bool) uint64 {
	if b {
		return 1
	}
	return 0
}

func setByteLen(resp packet.Response, n uint8) {
	switch v := resp.(type) {
	case *packet.ReadCoilsResponseRTU:
		v.CoilsByteLength = n
	case *packet.ReadDiscreteInputsResponseRTU:
		v.InputsByteLength = n
	case *packet.ReadHoldingRegistersResponseRTU:
		v.RegisterByteLen = n
	case *packet.ReadInputRegistersResponseRTU:
		v.RegisterByteLen = n
	case *packet.ReadWriteMultipleRegistersResponseRTU:
		v.RegisterByteLen = n
	}
}

// LibResponseRTU builds the library's RTU response value for a reference response (struct literal).
func LibResponseRTU(p specref.Resp) packet.Response {
	switch p.FC {
	case 1:
		return &packet.ReadCoilsResponseRTU{ReadCoilsResponse: packet.ReadCoilsResponse{UnitID: p.Unit, CoilsByteLength: uint8(len(p.Data)), Data: p.Data}}
	case 2:
		return &packet.ReadDiscreteInputsResponseRTU{ReadDiscreteInputsResponse: packet.ReadDiscreteInputsResponse{UnitID: p.Unit, InputsByteLength: uint8(len(p.Data)), Data: p.Data}}
	case 3:
		return &packet.ReadHoldingRegistersResponseRTU{ReadHoldingRegistersResponse: packet.ReadHoldingRegistersResponse{UnitID: p.Unit, RegisterByteLen: uint8(len(p.Data)), Data: p.Data}}
	case 4:
		return &packet.ReadInputRegistersResponseRTU{ReadInputRegistersResponse: packet.ReadInputRegistersResponse{UnitID: p.Unit, RegisterByteLen: uint8(len(p.Data)), Data: p.Data}}
	case 5:
		return &packet.WriteSingleCoilResponseRTU{WriteSingleCoilResponse: packet.WriteSingleCoilResponse{UnitID: p.Unit, StartAddress: p.Addr, CoilState: p.Value == 0xFF00}}
	case 6:
		return &packet.WriteSingleRegisterResponseRTU{WriteSingleRegisterResponse: packet.WriteSingleRegisterResponse{UnitID: p.Unit, Address: p.Addr, Data: [2]byte{byte(p.Value >> 8), byte(p.Value)}}}
	case 15:
		return &packet.WriteMultipleCoilsResponseRTU{WriteMultipleCoilsResponse: packet.WriteMultipleCoilsResponse{UnitID: p.Unit, StartAddress: p.Addr, CoilCount: p.Qty}}
	case 16:
		return &packet.WriteMultipleRegistersResponseRTU{WriteMultipleRegistersResponse: packet.WriteMultipleRegistersResponse{UnitID: p.Unit, StartAddress: p.Addr, RegisterCount: p.Qty}}
	case 17:
		return &packet.ReadServerIDResponseRTU{ReadServerIDResponse: packet.ReadServerIDResponse{UnitID: p.Unit, Status: p.Status, ServerID: p.ServerID, AdditionalData: p.Additional}}
	case 23:
		return &packet.ReadWriteMultipleRegistersResponseRTU{ReadWriteMultipleRegistersResponse: packet.ReadWriteMultipleRegistersResponse{UnitID: p.Unit, RegisterByteLen: uint8(len(p.Data)), Data: p.Data}}
	}
	return nil
}

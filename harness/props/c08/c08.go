// Package c08: a request call always terminates with a classified error on transport faults.
package c08

import (
	"context"
	"errors"
	"fmt"
	"math/rand"
	"net"
	"strings"
	"time"

	modbus "github.com/aldas/go-modbus-client"
	"github.com/aldas/go-modbus-client/packet"
	"verif/clientx"
	"verif/libx"
	"verif/mon"
	"verif/props/c07"
	"verif/specref"
	"verif/xport"
)

type Case struct {
	Client int    `json:"client"`
	FC     uint8  `json:"fc"`
	Size   int    `json:"size"`
	Kind   string `json:"kind"` // prefix-faults | misc | sequence
	Seed   int64  `json:"seed"`
	Dense  bool   `json:"dense"`
}

var faults = []string{"stall", "eof", "inject", "flood", "cancel"}

func Spec() *mon.Spec {
	return &mon.Spec{
		ID:      "C08",
		RuleAdd: "Later additions (rounds 4-17): caller deadlines far beyond the client timeout and already expired ones; stall tails spelled three ways; zero serial timeout; a connection dead right after the write; injected failures in four shapes (plain, connection timed out, connection reset, interrupted call), handed over with 0..rest bytes; connections without addresses; sockets that fail every call after Close; a serial line dripping one byte per 25 ms read; EOF before the first reply byte must be the retryable error; a cancellation must not be dressed as the retryable error; nil request also with hooks installed.",
		Level:   "fault_enumeration",
		Rule: "for every client kind x 10 functions x reply sizes, the scripted transport delivers a prefix p of the correct reply (every p in 0..L-1 for replies <= 40 bytes, boundary+PRNG prefixes otherwise) and then injects one fault: stall forever (timed-out reads), EOF, I/O error from Read, a 600-byte flood, context cancel on entering the k-th Read; plus write error, never-connected client, NewSerialClient(nil), nil request, serial flush failing; plus two-call sequences on ONE client (first call: ok | stall-timeout | eof | I/O error | cancel; second call: any fault or a clean exchange). " +
			"Oracle: Do returns (a 20x-timeout+20s watchdog plus a second 40s wait before 'hang'), no panic, err != nil, nil response; stall/Read error/Write error/flood => *ClientError (wrapping the injected error / the packet-too-long error), cancel => errors.Is(context.Canceled), unconnected/nil => error with an empty transport log; logical step bounds: no Read after an injected Read error, <=1 Read after cancel, no Read after a flood was detected. A clean second exchange after a faulted first one must succeed. distinct key=(client, fc, p, fault[, first-call fault]).",
		Assumptions: []string{"clients are configured with a 30 ms (network) / 40 ms (serial) total read timeout; the wall clock only bounds the run, verdicts come from the error value and the transport log",
			"EOF after a partial reply must fail but no error class is demanded for it (the statement names timeouts, I/O failures and oversize replies)"},
		NewCase:  func() any { return &Case{} },
		Gen:      gen,
		Run:      run,
		SelfTest: specref.SelfTest,
	}
}

func gen(g *mon.Gen) {
	rng := g.Rng
	for client := 0; client < 3; client++ {
		for _, fc := range specref.FCs {
			for size := 0; size < 3; size++ {
				if size > 0 && (fc == 5 || fc == 6 || fc == 15 || fc == 16) {
					continue
				}
				if size == 1 && !g.Thorough() {
					continue
				}
				g.Emit(&Case{Client: client, FC: fc, Size: size, Kind: "prefix-faults", Seed: rng.Int63(), Dense: g.Thorough() || client != clientx.Serial})
			}
			g.Emit(&Case{Client: client, FC: fc, Kind: "misc", Seed: rng.Int63()})
			for k := 0; k < g.Pick(1, 12); k++ {
				g.Emit(&Case{Client: client, FC: fc, Kind: "sequence", Seed: rng.Int63()})
			}
		}
	}
}

func rtOf(client int) time.Duration {
	if client == clientx.Serial {
		return 40 * time.Millisecond
	}
	return 30 * time.Millisecond
}

// script builds the transport script for fault f after prefix p.
func script(reply []byte, p int, f string, rng *rand.Rand, serial bool) xport.Script {
	var steps []xport.ReadStep
	if p > 0 {
		if p > 3 && rng.Intn(2) == 0 {
			k := 1 + rng.Intn(p-1)
			steps = append(steps, xport.ReadStep{N: k}, xport.ReadStep{N: p - k})
		} else {
			steps = append(steps, xport.ReadStep{N: p})
		}
	}
	s := xport.Script{Reply: reply, Steps: steps, Tail: "deadline"}
	switch f {
	case "stall":
		// silence spelled the ways transports spell it: the bare deadline sentinel, the sentinel inside a wrapping error,
		// and (serial ports) zero bytes without any error
		tails := []string{"deadline", "deadline", "deadline-wrapped"}
		if serial {
			tails = append(tails, "zero", "zero")
		}
		s.Tail = tails[rng.Intn(len(tails))]
	case "eof":
		s.Tail = "eof"
	case "inject":
		// the failing read may hand over bytes along with its error (io.Reader allows it) - up to the whole rest of the
		// reply: the transport failed all the same
		n := 0
		if rng.Intn(2) == 0 {
			n = rng.Intn(len(reply) - p + 1)
		}
		s.Steps = append(s.Steps, xport.ReadStep{N: n, Err: "inject"})
	case "flood":
		s.Reply = append(append([]byte{}, reply[:p]...), libx.RandBytes(rng, 600)...)
		s.Steps = append(s.Steps, xport.ReadStep{N: 600})
	case "cancel":
		s.CancelAtRead = len(steps) + 1 + rng.Intn(3)
	case "write":
		s.WriteErr = true
	}
	return s
}

type ctxInfo struct {
	c      *Case
	r      *mon.Rec
	req    packet.Request
	reply  []byte
	client int
}

// verdict checks one faulted call. first = description of a preceding call on the same client ("" if none).
func (x *ctxInfo) verdict(out clientx.Outcome, f string, p int, first string) {
	c := x.c
	L, E := len(x.reply), 0
	if x.req != nil {
		E = x.req.ExpectedResponseLength()
	}
	a := mon.Attrs{"client": clientx.KindName(x.client), "fc": int(c.FC), "fault": f}
	if first != "" {
		a["after"] = first
	}
	ctx := fmt.Sprintf("%s client fc%d, reply %d bytes (expected length %d), fault %q after %d bytes%s", clientx.KindName(x.client), c.FC, L, E, f, p, map[bool]string{true: " (second call after " + first + ")", false: ""}[first != ""])
	x.r.Eval(1)
	if out.Hung {
		x.r.Violate(c, "hang", a, ctx+": Do did not return within the watchdog; goroutines:\n"+out.Stacks)
		return
	}
	if out.Panic != "" {
		x.r.Violate(c, "do-panics", a, ctx+": "+out.Panic)
		return
	}
	if c.FC == 17 && x.client != clientx.TCP && p >= 7 && p < L && f != "flood" {
		// An RTU read-server-id reply carries no length of its own (server id length, then "the rest"): a prefix whose
		// last two bytes happen to be the CRC of what precedes them (one in 65536) is a complete, well-formed frame to
		// any receiver, and a line that goes quiet or fails after it has delivered a reply. No verdict either way.
		if crc := specref.CRC(x.reply[:p-2]); x.reply[p-2] == byte(crc) && x.reply[p-1] == byte(crc>>8) && int(x.reply[2])+4 <= p-2 {
			x.r.Cover("fault", "no verdict: the delivered prefix of an RTU FC17 reply is itself a CRC-consistent frame")
			return
		}
	}
	gap := p >= E && p < L // the prefix already satisfies a too-short expected length (C07's known formulas)
	if gap {
		a["in_gap"] = true
		a["delta"] = E - L
		if c.FC == 17 {
			delete(a, "delta")
			a["expected"] = E
		}
	}
	if out.Err == nil {
		x.r.Violate(c, "fault-reported-as-success", a, fmt.Sprintf("%s: returned %T % x without error", ctx, out.Resp, headBytes(out.Resp)))
		return
	}
	if !libx.IsNilValue(out.Resp) {
		x.r.Violate(c, "error-with-response", a, fmt.Sprintf("%s: %T together with %v", ctx, out.Resp, out.Err))
	}
	var ce *modbus.ClientError
	isCE := errors.As(out.Err, &ce)
	readsAfter := func(marker func(e xport.Event) bool) int {
		n, seen := 0, false
		for _, e := range out.Events {
			if seen && e.Op == "read" && !e.Expired {
				n++
			}
			if marker(e) {
				seen = true
			}
		}
		return n
	}
	switch f {
	case "stall":
		if !isCE {
			x.r.Violate(c, "wrong-error-class", a, fmt.Sprintf("%s: want *ClientError (timeout), got %T: %v", ctx, out.Err, out.Err))
		}
	case "inject":
		if !isCE || !errors.Is(out.Err, out.Conn.InjectedErr()) {
			x.r.Violate(c, "wrong-error-class", a, fmt.Sprintf("%s: want *ClientError wrapping the injected error, got %T: %v", ctx, out.Err, out.Err))
		}
		if n := readsAfter(func(e xport.Event) bool { return e.Op == "read" && e.Err == "inject" }); n > 0 {
			x.r.Violate(c, "reads-after-fatal-error", a, fmt.Sprintf("%s: %d more reads after the injected read error", ctx, n))
		}
	case "write":
		if !isCE || !errors.Is(out.Err, out.Conn.InjectedErr()) {
			x.r.Violate(c, "wrong-error-class", a, fmt.Sprintf("%s: want *ClientError wrapping the injected write error, got %T: %v", ctx, out.Err, out.Err))
		}
		if n := readsAfter(func(e xport.Event) bool { return e.Op == "write" }); n > 0 {
			x.r.Violate(c, "reads-after-fatal-error", a, fmt.Sprintf("%s: %d reads after the failed write", ctx, n))
		}
	case "flood":
		if !isCE || !strings.Contains(out.Err.Error(), "more bytes than valid Modbus packet") {
			x.r.Violate(c, "wrong-error-class", a, fmt.Sprintf("%s: want the packet-too-long *ClientError, got %T: %v", ctx, out.Err, out.Err))
		}
	case "cancel":
		if !errors.Is(out.Err, context.Canceled) {
			x.r.Violate(c, "wrong-error-class", a, fmt.Sprintf("%s: want context.Canceled, got %T: %v", ctx, out.Err, out.Err))
		} else if isCE {
			// a cancellation dressed up as the retryable client error: a caller that retries on *ClientError would retry
			// a call its own user cancelled
			x.r.Violate(c, "cancel-reported-as-client-error", a, fmt.Sprintf("%s: the caller's cancellation is reported as the library's retryable client error (%T: %v), not as the context's error", ctx, out.Err, out.Err))
		}
		k := out.Conn.S.CancelAtRead
		reads := 0
		for _, e := range out.Events {
			if e.Op == "read" && !e.Expired { // the script's reads; a read that found its deadline already expired is not one of them
				reads++
			}
		}
		if reads > k+1 {
			x.r.Violate(c, "reads-after-cancel", a, fmt.Sprintf("%s: context cancelled on entering read %d, client issued %d reads in total", ctx, k, reads))
		}
	case "eof":
		// a stream closed in the middle of a reply leaves bytes for the parser to refuse: any error will do. A stream
		// closed before the first reply byte is a transport failure and nothing else
		if p == 0 && !isCE {
			x.r.Violate(c, "wrong-error-class", a, fmt.Sprintf("%s: the peer closed the stream before sending anything; want the retryable *ClientError, got %T: %v", ctx, out.Err, out.Err))
		}
	}
	key := mon.Mix(uint64(x.client), uint64(c.FC), uint64(L), uint64(p), mon.HashS(f), mon.HashS(first))
	x.r.Distinct(key)
}

// nopHooks: hooks that do nothing.
type nopHooks struct{}

func (nopHooks) BeforeWrite(toWrite []byte)                      {}
func (nopHooks) AfterEachRead(received []byte, n int, err error) {}
func (nopHooks) BeforeParse(received []byte)                     {}

func headBytes(resp packet.Response) []byte {
	if libx.IsNilValue(resp) {
		return nil
	}
	b := resp.Bytes()
	if len(b) > 24 {
		b = b[:24]
	}
	return b
}

func run(ci any, r *mon.Rec) {
	c := ci.(*Case)
	rng := rand.New(rand.NewSource(c.Seed))
	req, _, reply, err := c07.Build(rng, c.Client, c.FC, c.Size, false)
	if err != nil {
		r.Violate(c, "constructor-refuses-legal", mon.Attrs{"fc": int(c.FC)}, err.Error())
		return
	}
	x := &ctxInfo{c: c, r: r, req: req, reply: reply, client: c.Client}
	if clientx.TooManyHangs() {
		r.NoteAdd("cases_skipped_after_3_hangs", 1)
		return
	}
	L := len(reply)
	E := req.ExpectedResponseLength()
	opt := clientx.Options{ReadTimeout: rtOf(c.Client), Flusher: rng.Intn(2) == 0}
	if c.Seed%2 == 0 {
		// the caller's context carries a deadline far beyond the client's own read timeout: the client timeout still
		// bounds the call and is still reported as the client's retryable error
		opt.CtxDeadline = 25 * rtOf(c.Client)
	}
	switch c.Kind {
	case "prefix-faults":
		ps := map[int]bool{}
		if L <= 40 && c.Dense {
			for p := 0; p < L; p++ {
				ps[p] = true
			}
		} else {
			for _, p := range []int{0, 1, 2, 4, 5, 7, 8, 9, E - 1, E, E + 1, L - 2, L - 1, L / 2} {
				if p >= 0 && p < L {
					ps[p] = true
				}
			}
			for i := 0; i < 6; i++ {
				ps[rng.Intn(L)] = true
			}
		}
		for p := 0; p < L; p++ {
			if !ps[p] {
				continue
			}
			for _, f := range faults {
				if (f == "flood" || f == "cancel") && p >= E {
					continue // the client legitimately stops reading once its expected length is reached
				}
				if c.Client == clientx.Serial && !c.Dense && (f == "stall" || f == "eof") && p%3 != 0 && p != E-1 && p != L-1 {
					continue // each costs a full serial timeout
				}
				out := clientx.Run(c.Client, req, script(reply, p, f, rng, c.Client == clientx.Serial), opt)
				x.verdict(out, f, p, "")
			}
		}
		r.Sample(map[string]any{"client": clientx.KindName(c.Client), "fc": c.FC, "reply_len": L, "prefixes": len(ps), "faults": faults})
	case "misc":
		// write error
		out := clientx.Run(c.Client, req, script(reply, 0, "write", rng, c.Client == clientx.Serial), opt)
		x.verdict(out, "write", 0, "")
		if c.Client == clientx.Serial {
			// a serial client configured with a zero read timeout: whatever zero means to it, a silent line must still end the call
			zo := opt
			zo.ZeroSerialTimeout, zo.ReadTimeout = true, 40*time.Millisecond
			for _, p := range []int{0, 2} {
				out := clientx.Run(c.Client, req, script(reply, min(p, L-1), "stall", rng, true), zo)
				x.verdict(out, "stall", min(p, L-1), "zero-read-timeout")
			}
		}
		if c.Client == clientx.Serial {
			// a babbling line: one byte per read, every read taking 25 ms (the port's own read timeout), for ever. The
			// client's read timeout (40 ms) is the time the whole reply may take: after it the call ends, however regularly
			// bytes keep dripping in. Verdict on the reads the client made - each took at least 25 ms, so more than five
			// of them cannot fit into a timeout of 40 ms whatever the machine load.
			pfx := []int{0, 1, 3}[rng.Intn(3)]
			dr := xport.Script{Reply: append(append([]byte{}, reply...), libx.RandBytes(rng, 64)...), Tail: "deadline"}
			if pfx > 0 {
				dr.Steps = append(dr.Steps, xport.ReadStep{N: pfx})
			}
			for i := 0; i < 60; i++ {
				dr.Steps = append(dr.Steps, xport.ReadStep{N: 1, SleepMs: 25})
			}
			out := clientx.Run(c.Client, req, dr, opt)
			slowReads := 0
			for _, e := range out.Events {
				if e.Op == "read" && e.N == 1 {
					slowReads++
				}
			}
			r.Eval(1)
			r.Cover("fault", "drip")
			if out.Hung || slowReads > 6 {
				r.Violate(c, "read-timeout-not-total", mon.Attrs{"client": "serial", "fc": int(c.FC)}, fmt.Sprintf("serial client fc%d, read timeout %v, a line that delivers one byte every 25 ms after a %d-byte prefix: the call made %d such reads (>= %d ms) before it ended (hung=%v err=%v)", c.FC, opt.ReadTimeout, pfx, slowReads, 25*(slowReads-1), out.Hung, out.Err))
			} else if out.Err == nil && E-pfx >= 4 { // (at least four slow reads are needed before there is anything to parse)
				r.Violate(c, "fault-reported-as-success", mon.Attrs{"client": "serial", "fc": int(c.FC), "fault": "drip"}, fmt.Sprintf("serial client fc%d: success after %d slow reads although the reply (%d bytes at 25 ms each) cannot arrive within the read timeout %v", c.FC, slowReads, L, opt.ReadTimeout))
			}
		}
		if c.Client != clientx.TCP && c.FC == 6 {
			// a write-single-register exchange over RTU whose written value happens to equal the CRC of unit, function and
			// address: the first six bytes of the (eight-byte) echo look like a complete CRC-consistent frame. The line
			// goes silent after exactly those six bytes: that is a stall, not a reply
			u, ad := uint8(1+rng.Intn(200)), uint16(rng.Intn(65536))
			w := specref.CRC([]byte{u, 6, byte(ad >> 8), byte(ad)})
			q6 := specref.Req{FC: 6, Unit: u, Addr: ad, Value: uint16(byte(w))<<8 | uint16(w>>8)}
			if rq6, err := libx.NewRequest(specref.RTU, q6); err == nil {
				echo := rq6.Bytes()
				out := clientx.Run(c.Client, rq6, xport.Script{Reply: echo, Steps: []xport.ReadStep{{N: 6}}, Tail: "deadline"}, opt)
				r.Eval(1)
				r.Cover("fault", "stall-after-a-crc-consistent-prefix")
				if out.Err == nil && !out.Hung && out.Panic == "" {
					r.Violate(c, "fault-reported-as-success", mon.Attrs{"client": clientx.KindName(c.Client), "fc": 6, "fault": "stall", "crc_consistent_prefix": true}, fmt.Sprintf("FC6 over RTU, value = CRC of the first four bytes: reply % x stalled after 6 of its 8 bytes, the call returned %T without error", echo, out.Resp))
				}
			}
		}
		// the connection dies right after the request was written (closed locally, cable pulled): the deadline setter fails
		// before the read does - still an I/O failure, reported as the client error wrapping the cause
		if c.Client != clientx.Serial {
			out := clientx.Run(c.Client, req, xport.Script{Reply: reply, DeadConn: true, Tail: "inject"}, opt)
			x.verdict(out, "inject", 0, "dead-connection")
		}
		// the caller's budget is already spent when it calls (a context whose deadline has passed): that is the context's
		// error, whatever the transport would have done - not a retryable transport fault
		{
			eo := opt
			eo.CtxExpired, eo.CtxDeadline = true, 0
			out := clientx.Run(c.Client, req, xport.Script{Reply: reply, Steps: xport.Cuts(L, nil, 0), Tail: "deadline"}, eo)
			r.Eval(1)
			switch {
			case out.Hung || out.Panic != "":
				r.Violate(c, "hang", mon.Attrs{"client": clientx.KindName(c.Client), "fc": int(c.FC), "fault": "expired-context"}, "Do with an expired context did not return / panicked: "+out.Panic)
			case out.Err == nil:
				// the caller had given up before it called: whatever is already waiting on the line, the call does not succeed
				r.Violate(c, "fault-reported-as-success", mon.Attrs{"client": clientx.KindName(c.Client), "fc": int(c.FC), "fault": "expired-context"}, fmt.Sprintf("context deadline already passed at the call, the complete reply readable at once: returned %T without error", out.Resp))
			case !errors.Is(out.Err, context.DeadlineExceeded):
				r.Violate(c, "wrong-error-class", mon.Attrs{"client": clientx.KindName(c.Client), "fc": int(c.FC), "fault": "expired-context"}, fmt.Sprintf("context deadline already passed at the call: want the context's error, got %T: %v", out.Err, out.Err))
			}
		}
		// nil request: error before any transport call
		out = clientx.Run(c.Client, nil, xport.Script{Reply: reply, Steps: xport.Cuts(L, nil, 0), Tail: "deadline"}, opt)
		r.Eval(1)
		if out.Err == nil || out.Panic != "" || len(out.Events) != 0 {
			r.Violate(c, "nil-request-not-refused", mon.Attrs{"client": clientx.KindName(c.Client)}, fmt.Sprintf("err=%v panic=%q transport events=%d", out.Err, out.Panic, len(out.Events)))
		}
		// ... also on a client that has logging hooks installed (there is no request whose bytes a hook could be shown)
		hopt := opt
		hopt.Hooks = nopHooks{}
		out = clientx.Run(c.Client, nil, xport.Script{Reply: reply, Steps: xport.Cuts(L, nil, 0), Tail: "deadline"}, hopt)
		r.Eval(1)
		if out.Err == nil || out.Panic != "" || len(out.Events) != 0 {
			r.Violate(c, "nil-request-not-refused", mon.Attrs{"client": clientx.KindName(c.Client), "hooks": true}, fmt.Sprintf("client with hooks installed: err=%v panic=%q transport events=%d", out.Err, out.Panic, len(out.Events)))
		}
		r.Distinct(mon.Mix(7, uint64(c.Client), uint64(c.FC)))
		// never connected / no port
		var uerr error
		var uresp packet.Response
		pn, txt := mon.Catch(func() {
			switch c.Client {
			case clientx.TCP:
				uresp, uerr = modbus.NewTCPClient().Do(context.Background(), req)
			case clientx.RTUNet:
				uresp, uerr = modbus.NewRTUClient().Do(context.Background(), req)
			default:
				uresp, uerr = modbus.NewSerialClient(nil).Do(context.Background(), req)
			}
		})
		r.Eval(1)
		if pn || uerr == nil || !libx.IsNilValue(uresp) {
			r.Violate(c, "unconnected-not-refused", mon.Attrs{"client": clientx.KindName(c.Client)}, fmt.Sprintf("err=%v panic=%q", uerr, txt))
		} else if c.Client != clientx.Serial {
			var ce *modbus.ClientError
			if !errors.As(uerr, &ce) {
				r.Violate(c, "wrong-error-class", mon.Attrs{"client": clientx.KindName(c.Client), "fc": int(c.FC), "fault": "not-connected"}, fmt.Sprintf("%T %v", uerr, uerr))
			}
		}
		// network clients whose Connect failed (dial function returning an error with a nil or a typed-nil connection)
		if c.Client != clientx.Serial {
			for _, typedNil := range []bool{false, true} {
				cfg := modbus.ClientConfig{DialContextFunc: func(ctx context.Context, address string) (net.Conn, error) {
					if typedNil {
						var tc *net.TCPConn
						return tc, errors.New("verif: dial refused")
					}
					return nil, errors.New("verif: dial refused")
				}}
				var cl *modbus.Client
				if c.Client == clientx.TCP {
					cl = modbus.NewTCPClientWithConfig(cfg)
				} else {
					cl = modbus.NewRTUClientWithConfig(cfg)
				}
				var cerr, derr error
				var dresp packet.Response
				pn, txt := mon.Catch(func() {
					cerr = cl.Connect(context.Background(), "verif:1")
					dresp, derr = cl.Do(context.Background(), req)
					_ = cl.Close()
				})
				r.Eval(1)
				if pn || cerr == nil || derr == nil || !libx.IsNilValue(dresp) {
					r.Violate(c, "unconnected-not-refused", mon.Attrs{"client": clientx.KindName(c.Client), "after": "failed-connect", "typed_nil": typedNil}, fmt.Sprintf("Connect err=%v; Do err=%v panic=%q", cerr, derr, txt))
				}
			}
		}
		// serial: flush failing on an error path must still yield a *ClientError
		if c.Client == clientx.Serial {
			s := script(reply, min(2, L-1), "inject", rng, c.Client == clientx.Serial)
			s.FlushErr = true
			out := clientx.Run(c.Client, req, s, clientx.Options{ReadTimeout: rtOf(c.Client), Flusher: true})
			r.Eval(1)
			var ce *modbus.ClientError
			if out.Err == nil || !errors.As(out.Err, &ce) || !libx.IsNilValue(out.Resp) {
				r.Violate(c, "wrong-error-class", mon.Attrs{"client": "serial", "fc": int(c.FC), "fault": "inject+flush-error"}, fmt.Sprintf("%T %v", out.Err, out.Err))
			}
		}
		// ... and where the exchange itself went well: the port fails to flush after the complete reply, after an exception
		// reply, after a flood - an I/O failure of the port, reported as the client error that wraps THAT failure
		if c.Client == clientx.Serial {
			exq := specref.Resp{FC: c.FC, Unit: reply[0], Exception: true, ExCode: 2}.Encode(specref.RTU)
			for _, fs := range []struct {
				what string
				s    xport.Script
			}{
				{"complete-reply", xport.Script{Reply: reply, Steps: xport.Cuts(L, nil, 0), Tail: "deadline", FlushErr: true}},
				{"exception-reply", xport.Script{Reply: exq, Steps: xport.Cuts(len(exq), nil, 0), Tail: "deadline", FlushErr: true}},
				{"flood", xport.Script{Reply: libx.RandBytes(rng, 600), Steps: []xport.ReadStep{{N: 600}}, Tail: "deadline", FlushErr: true}},
			} {
				out := clientx.Run(c.Client, req, fs.s, clientx.Options{ReadTimeout: rtOf(c.Client), Flusher: true})
				r.Eval(1)
				flushed := false
				for _, e := range out.Events {
					flushed = flushed || e.Op == "flush"
				}
				if !flushed {
					continue // (the client did not flush on this path: nothing failed)
				}
				var ce *modbus.ClientError
				txt, tp := "", false
				if out.Err != nil {
					tp, _ = mon.Catch(func() { txt = out.Err.Error() })
				}
				if out.Panic != "" || out.Err == nil || tp || !errors.As(out.Err, &ce) || !errors.Is(out.Err, xport.ErrInjected) {
					r.Violate(c, "wrong-error-class", mon.Attrs{"client": "serial", "fc": int(c.FC), "fault": "flush-error-after-" + fs.what}, fmt.Sprintf("the port's Flush failed after a %s: want a *ClientError wrapping the flush error, got %T %q (Error() panics: %v, Do panicked: %q)", fs.what, out.Err, txt, tp, out.Panic))
				}
			}
			r.Cover("fault", "flush-error-after-a-successful-read")
		}
	case "sequence":
		firsts := []string{"ok", "stall", "eof", "inject", "cancel"}
		for _, f1 := range firsts {
			for _, f2 := range []string{"ok", "stall", "inject", "cancel", "eof"} {
				if c.Client == clientx.Serial && !r.Thorough() && rng.Intn(3) != 0 {
					continue
				}
				if clientx.TooManyHangs() {
					return
				}
				sess := clientx.NewSession(c.Client, opt)
				p1 := 0
				if E > 1 {
					p1 = rng.Intn(min(E, L))
				}
				var o1 clientx.Outcome
				if f1 == "ok" {
					o1 = sess.Do(req, xport.Script{Reply: reply, Steps: xport.Cuts(L, nil, 0), Tail: "deadline"})
				} else {
					o1 = sess.Do(req, script(reply, p1, f1, rng, c.Client == clientx.Serial))
				}
				if o1.Hung {
					x.verdict(o1, f1, p1, "")
					continue
				}
				p2 := 0
				if E > 1 {
					p2 = rng.Intn(min(E, L))
				}
				if f2 == "ok" {
					o2 := sess.Do(req, xport.Script{Reply: reply, Steps: xport.Cuts(L, nil, 0), Tail: "deadline"})
					r.Eval(1)
					r.Distinct(mon.Mix(9, uint64(c.Client), uint64(c.FC), mon.HashS(f1)))
					a := mon.Attrs{"client": clientx.KindName(c.Client), "fc": int(c.FC), "after": f1, "delta": E - L}
					if c.FC == 17 {
						delete(a, "delta")
						a["expected"] = E
					}
					switch {
					case o2.Hung:
						r.Violate(c, "hang", a, fmt.Sprintf("clean exchange after a %s call did not return; goroutines:\n%s", f1, o2.Stacks))
					case o2.Panic != "":
						r.Violate(c, "do-panics", a, o2.Panic)
					case E > L && o2.Err != nil && strings.Contains(o2.Err.Error(), "total read timeout"):
						// C07 known formula (expected length too long): every complete reply times out; not a C08 matter
					case o2.Err != nil:
						r.Violate(c, "clean-exchange-fails-after-fault", a, fmt.Sprintf("second call (whole reply in one read) after a %s call: %v", f1, o2.Err))
					}
					continue
				}
				o2 := sess.Do(req, script(reply, p2, f2, rng, c.Client == clientx.Serial))
				x.verdict(o2, f2, p2, f1)
			}
		}
	}
}

// Package c05: fields extracted via the request builder equal the device's memory contents.
package c05

import (
	"errors"
	"fmt"
	"math"
	"math/rand"
	"verif/libx"

	modbus "github.com/aldas/go-modbus-client"
	"github.com/aldas/go-modbus-client/packet"
	"verif/fieldgen"
	"verif/mon"
	"verif/props/c06"
	"verif/regref"
	"verif/simdev"
	"verif/specref"
)

type Case struct {
	Target int   `json:"target"` // index into c06.Targets (4..7: register targets)
	Seed   int64 `json:"seed"`
	Short  int   `json:"short"` // device answers this many registers short (0 = full)
	Small  bool  `json:"small"`
}

func Spec() *mon.Spec {
	return &mon.Spec{
		ID:      "C05",
		RuleAdd: "Later additions (rounds 4-17): a complete reply makes every field reachable; multiset counts for duplicated definitions; builder errors for lists of valid fields; value-form responses; near-twin fields, stray Length on non-strings, strings of 61..250 bytes, builders with defaults of their own.",
		Level:   "exploration",
		Rule: "PRNG field multisets (1..40 fields, all 13 register types, clustered/gapped/edge addresses incl. 0..4 and 65530..65535, duplicates, overlaps, all documented orders, string lengths 1..255, 1-3 servers x 1-3 unit ids with hostile names) -> Builder.Read{Holding,Input}Registers{TCP,RTU} -> each request's Bytes() is decoded by the reference decoder and answered by a simulated device whose memory is a hash of (server, unit, table, address) -> reply parsed by the library's dispatcher -> ExtractFields strict and lenient. " +
			"Oracle: every valid register field reported exactly once under its own definition; value == reference decode of that device's memory; truncated replies (device answers k registers short): strict => error and no values, lenient => all fields present, Error exactly on fields not inside the shortened window, ErrorFieldExtractHadError iff any failed. distinct key = hash(sorted field list, target, truncation).",
		Assumptions: []string{"reference decoder regref; simulated device built on specref only", "requests whose window runs past 65535 are answered with exception 02 by the device and are not extraction cases"},
		NewCase:     func() any { return &Case{} },
		Gen:         gen,
		Run:         run,
		SelfTest: func() error {
			if err := specref.SelfTest(); err != nil {
				return err
			}
			return regref.SelfTest()
		},
	}
}

func gen(g *mon.Gen) {
	rng := g.Rng
	n := g.Pick(30000, 3000000)
	for i := 0; i < n; i++ {
		short := 0
		if i%3 == 0 {
			short = 1 + rng.Intn(6)
			if rng.Intn(4) == 0 {
				short = 1 + rng.Intn(124)
			}
		}
		g.Emit(&Case{Target: 4 + i%4, Seed: rng.Int63(), Short: short, Small: i%5 == 0})
	}
}

func show(v any) string {
	switch x := v.(type) {
	case float32:
		return fmt.Sprintf("f32:%08x", math.Float32bits(x))
	case float64:
		return fmt.Sprintf("f64:%016x", math.Float64bits(x))
	case string:
		return fmt.Sprintf("s:%q", x)
	}
	return fmt.Sprintf("%T:%v", v, v)
}

// expected decodes the field directly from device memory.
func expected(dev *simdev.Device, table int, f modbus.Field) string {
	size := fieldgen.RegSize(f)
	wire := dev.RegBytes(f.UnitID, table, int(f.Address), size)
	ord := regref.Resolve(regref.Order(f.ByteOrder), regref.ViewDefault)
	switch f.Type {
	case modbus.FieldTypeBit:
		return show(regref.Bit(wire, int(f.Bit)))
	case modbus.FieldTypeByte, modbus.FieldTypeUint8:
		return show(regref.Byte(wire, f.FromHighByte))
	case modbus.FieldTypeInt8:
		return show(int8(regref.Byte(wire, f.FromHighByte)))
	case modbus.FieldTypeUint16:
		return show(uint16(regref.Uint(wire, regref.ViewDefault)))
	case modbus.FieldTypeInt16:
		return show(int16(regref.Uint(wire, regref.ViewDefault)))
	case modbus.FieldTypeUint32:
		return show(uint32(regref.Uint(wire, ord)))
	case modbus.FieldTypeInt32:
		return show(int32(regref.Uint(wire, ord)))
	case modbus.FieldTypeFloat32:
		return show(math.Float32frombits(uint32(regref.Uint(wire, ord))))
	case modbus.FieldTypeUint64:
		return show(regref.Uint(wire, ord))
	case modbus.FieldTypeInt64:
		return show(int64(regref.Uint(wire, ord)))
	case modbus.FieldTypeFloat64:
		return show(math.Float64frombits(regref.Uint(wire, ord)))
	case modbus.FieldTypeString:
		return show(regref.String(wire, int(f.Length), ord))
	}
	return "?"
}

func run(ci any, r *mon.Rec) {
	c := ci.(*Case)
	t := c06.Targets[c.Target]
	rng := rand.New(rand.NewSource(c.Seed))
	table := simdev.Holding
	if t.FC() == 4 {
		table = simdev.Input
	}
	n := 1 + rng.Intn(40)
	if c.Small {
		n = 1 + rng.Intn(4)
	}
	fields := fieldgen.List(rng, n, 0, 1+rng.Intn(3), 1+rng.Intn(3), 125)
	if rng.Intn(5) == 0 { // a few coil fields must not disturb register extraction
		fields = append(fields, fieldgen.Rand(rng, "coilx", fields[0].ServerAddress, fields[0].UnitID, int(fields[0].Address), 1))
	}
	b := fieldgen.NewBuilder(uint64(c.Seed))
	b.AddAll(append(modbus.Fields{}, fields...))
	var reqs []modbus.BuilderRequest
	var err error
	if p, txt := mon.Catch(func() { reqs, err = t.Call(b) }); p {
		r.Violate(c, "builder-panics", mon.Attrs{}, txt)
		return
	}
	r.Eval(1)
	if err != nil {
		r.Cover("builder", "error")
		// the builder may refuse a list only for a reason: an invalid definition, or a field that no single request can
		// carry (more than 125 registers, or running past address 65535)
		feasible := true
		for _, f := range fields {
			if !fieldgen.Valid(f) || (!fieldgen.IsCoil(f) && (fieldgen.RegSize(f) > 125 || int(f.Address)+fieldgen.RegSize(f) > 65536)) {
				feasible = false
			}
		}
		if feasible {
			r.Violate(c, "builder-refuses-valid-fields", mon.Attrs{}, fmt.Sprintf("%d valid fields, each of which fits one request: %v", len(fields), err))
		}
		return
	}
	r.Cover("builder", "requests")
	devs := map[string]*simdev.Device{}
	dev := func(server string) *simdev.Device {
		d := devs[server]
		if d == nil {
			d = simdev.New(uint64(c.Seed)^0x5bd1e995, server)
			devs[server] = d
		}
		return d
	}
	want := map[string]modbus.Field{}
	mult := map[string]int{} // how often the very same definition was given (a multiset: each occurrence is a field of its own)
	for _, f := range fields {
		if fieldgen.Valid(f) && !fieldgen.IsCoil(f) {
			want[f.Name] = f
			mult[f.Name]++
		}
	}
	seen := map[string]int{}
	fr := t.Framing()
	for qi, rq := range reqs {
		d := dev(rq.ServerAddress)
		wire := rq.Bytes()
		dq, derr := specref.DecodeReq(fr, wire)
		if derr != nil {
			r.Violate(c, "request-undecodable", mon.Attrs{}, fmt.Sprintf("% x: %v", wire, derr))
			continue
		}
		d.ShortBy = 0
		full := d.Handle(dq)
		if full.Exception {
			r.Cover("device", fmt.Sprintf("exception-%d", full.ExCode))
			for _, f := range rq.Fields {
				seen[f.Name]++
			}
			continue
		}
		got := int(dq.Qty)
		if c.Short > 0 && got > c.Short {
			d.ShortBy = c.Short
			got -= c.Short
		}
		reply := d.Handle(dq).Encode(fr)
		d.ShortBy = 0
		var resp packet.Response
		if fr == specref.TCP {
			resp, err = packet.ParseTCPResponse(reply)
		} else {
			resp, err = packet.ParseRTUResponseWithCRC(reply)
		}
		if err != nil {
			r.Violate(c, "reply-refused", mon.Attrs{}, fmt.Sprintf("reply % x: %v", head(reply), err))
			continue
		}
		winLo, winHi := int(dq.Addr), int(dq.Addr)+got // what the device actually delivered, at the address the packet asked for
		complete := got == int(dq.Qty)
		inWin := func(f modbus.Field) bool {
			if complete {
				// the device delivered everything that was asked for: the builder is responsible for having asked for
				// enough, so every field it put into this request must be extractable (a field whose span is 65536 or
				// beyond cannot be: the device would have refused the request)
				return true
			}
			return int(f.Address) >= winLo && int(f.Address)+fieldgen.RegSize(f) <= winHi
		}
		anyOut := false
		for _, f := range rq.Fields {
			if !inWin(f) {
				anyOut = true
			}
		}
		for _, lenient := range []bool{true, false} {
			var vals []modbus.FieldValue
			var xerr error
			arg := resp
			if (c.Seed+int64(qi))%2 == 0 {
				arg = libx.ValueForm(resp) // callers hold responses by value as well as by pointer
				r.Cover("response-form", "value")
			}
			if p, txt := mon.Catch(func() { vals, xerr = rq.ExtractFields(arg, lenient) }); p {
				r.Violate(c, "extract-panics", mon.Attrs{"lenient": lenient, "short": c.Short > 0}, fmt.Sprintf("request %d start %d qty %d (device delivered %d): %s", qi, rq.StartAddress, dq.Qty, got, txt))
				continue
			}
			r.Eval(1 + len(vals))
			mode := map[bool]string{true: "lenient", false: "strict"}[lenient]
			if !lenient && anyOut {
				if xerr == nil || len(vals) != 0 {
					r.Violate(c, "strict-no-failure", mon.Attrs{}, fmt.Sprintf("request %d window [%d,%d) delivered [%d,%d): strict extraction returned %d values, err=%v", qi, dq.Addr, int(dq.Addr)+int(dq.Qty), winLo, winHi, len(vals), xerr))
				}
				continue
			}
			if lenient {
				if anyOut != errors.Is(xerr, modbus.ErrorFieldExtractHadError) || (!anyOut && xerr != nil) {
					r.Violate(c, "lenient-error-flag", mon.Attrs{"any_failed": anyOut}, fmt.Sprintf("request %d: err=%v", qi, xerr))
				}
			} else if xerr != nil {
				r.Violate(c, "strict-fails-complete", mon.Attrs{}, fmt.Sprintf("request %d window [%d,%d) fully delivered: %v", qi, winLo, winHi, xerr))
				continue
			}
			if len(vals) != len(rq.Fields) {
				r.Violate(c, "field-count", mon.Attrs{"mode": mode}, fmt.Sprintf("request %d has %d fields, extraction returned %d", qi, len(rq.Fields), len(vals)))
			}
			names := map[string]int{}
			for _, fv := range vals {
				names[fv.Field.Name]++
				wf, ok := want[fv.Field.Name]
				if !ok {
					r.Violate(c, "unknown-field", mon.Attrs{}, fmt.Sprintf("%+v", fv.Field))
					continue
				}
				if wf != fv.Field {
					r.Violate(c, "field-definition-changed", mon.Attrs{}, fmt.Sprintf("given %+v reported %+v", wf, fv.Field))
					continue
				}
				if lenient {
					seen[wf.Name]++
				}
				if wf.ServerAddress != rq.ServerAddress || wf.UnitID != rq.UnitID {
					r.Violate(c, "wrong-target", mon.Attrs{"what": map[bool]string{true: "server", false: "unit"}[wf.ServerAddress != rq.ServerAddress]}, fmt.Sprintf("field %s of %s/%d extracted from a request to %s/%d", wf.Name, wf.ServerAddress, wf.UnitID, rq.ServerAddress, rq.UnitID))
					continue
				}
				if !inWin(wf) {
					if fv.Error == nil {
						r.Violate(c, "unreachable-field-has-value", mon.Attrs{}, fmt.Sprintf("field %s span [%d,%d) not inside delivered window [%d,%d) but value %v", wf.Name, wf.Address, int(wf.Address)+fieldgen.RegSize(wf), winLo, winHi, fv.Value))
					}
					continue
				}
				if fv.Error != nil {
					r.Violate(c, "reachable-field-failed", mon.Attrs{"mode": mode, "type": int(wf.Type)}, fmt.Sprintf("field %+v inside delivered window [%d,%d): %v", wf, winLo, winHi, fv.Error))
					continue
				}
				// the device the FIELD belongs to is the truth, whatever request carried it
				if g, w := show(fv.Value), expected(dev(wf.ServerAddress), table, wf); g != w {
					r.Violate(c, "wrong-value", mon.Attrs{"type": int(wf.Type), "mode": mode}, fmt.Sprintf("field %+v: got %s, device memory decodes to %s (request %d start %d)", wf, g, w, qi, rq.StartAddress))
				}
			}
			for nme, k := range names {
				if k > mult[nme] {
					r.Violate(c, "field-duplicated", mon.Attrs{"mode": mode}, fmt.Sprintf("field %s reported %d times in request %d", nme, k, qi))
				}
			}
		}
	}
	for name, f := range want {
		switch k := seen[name]; {
		case k < mult[name]:
			r.Violate(c, "field-missing", mon.Attrs{"given_more_than_once": mult[name] > 1}, fmt.Sprintf("field %+v given %d time(s), reported %d time(s) (%d requests)", f, mult[name], k, len(reqs)))
		case k > mult[name]:
			r.Violate(c, "field-duplicated", mon.Attrs{"mode": "across-requests"}, fmt.Sprintf("field %+v given %d time(s), reported %d times", f, mult[name], k))
		}
	}
	h := mon.Mix(uint64(c.Target), uint64(c.Short))
	for _, f := range fields {
		h ^= mon.Mix(mon.HashS(f.ServerAddress), uint64(f.UnitID), uint64(f.Address), uint64(f.Type), uint64(f.Length), uint64(f.ByteOrder))
	}
	r.Distinct(h)
	if c.Small {
		r.Sample(map[string]any{"target": t.Name(), "fields": fields, "requests": len(reqs), "short_by": c.Short})
	}
}

func head(b []byte) []byte {
	if len(b) > 32 {
		return b[:32]
	}
	return b
}

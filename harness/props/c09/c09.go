// Package c09: legal requests survive encode -> parse unchanged; illegal ones are refused.
package c09

import (
	"bytes"
	"fmt"
	"math/rand"
	"reflect"

	"github.com/aldas/go-modbus-client/packet"
	"verif/libx"
	"verif/mon"
	"verif/specref"
)

type Case struct {
	Kind    string `json:"kind"` // legal-qty | legal-rand | illegal-qty | fc5-values | fc23
	FC      uint8  `json:"fc"`
	Framing int    `json:"framing"`
	Lo      int    `json:"lo"`
	Hi      int    `json:"hi"`
	Seed    int64  `json:"seed"`
}

func Spec() *mon.Spec {
	return &mon.Spec{
		ID:      "C09",
		RuleAdd: "Later additions (rounds 4-17): transaction ids 0/65535; FC15 spare bits set; parsers run on whatever the encoder emitted; decoded requests stay intact when the input buffer is overwritten and when an earlier decoded value is zeroed by its receiver; CRC twins parsed one after the other.",
		Level:   "exploration",
		Rule: "legal: requests legal per the specification, built by the library's constructors (FC23 read quantity 125 via struct literal, which the constructor refuses), encoded with Bytes(), then parsed by the dispatcher(s) (ParseTCPRequest | ParseRTURequest, ParseRTURequestWithCRC) and the per-function parser (RTU also without the CRC trailer): no error, reflect.DeepEqual(parsed, original), parsed.Bytes()==original.Bytes(). Whole legal quantity axis for FC1-4/15/16/23, PRNG addresses/units/tids/payloads. " +
			"illegal: reference-encoded frames with quantity 0 or above the function's limit (whole axis to 65535, byte count consistent where one exists), FC5 all 65536 values, FC23 read and write quantities: every parser must return an error. distinct key=(fc, framing, quantity, entry point, legal?).",
		Assumptions: []string{"legality per specref (V1.1b3 limits)"},
		NewCase:     func() any { return &Case{} },
		Gen:         gen,
		Run:         run,
		SelfTest:    specref.SelfTest,
		Exhaustive:  true,
	}
}

func gen(g *mon.Gen) {
	rng := g.Rng
	// two-field cubes (one case per value of the 8-bit field, all 65536 values of the 16-bit one)
	cubeVals := []int{0, 1, 3, 6, 16, 17, 23, 58, 255}
	if g.Thorough() {
		cubeVals = cubeVals[:0]
		for v := 0; v < 256; v++ {
			cubeVals = append(cubeVals, v)
		}
	} else {
		for k := 0; k < 7; k++ {
			cubeVals = append(cubeVals, rng.Intn(256))
		}
	}
	for _, v := range cubeVals {
		g.Emit(&Case{Kind: "cube", Lo: v, Seed: rng.Int63()})
	}
	for i := 0; i < g.Pick(8, 200); i++ {
		g.Emit(&Case{Kind: "crc-twin", Seed: rng.Int63()})
	}
	for fr := 0; fr < 2; fr++ {
		for _, fc := range []uint8{1, 2, 3, 4, 15, 16} {
			max := map[uint8]int{1: 2000, 2: 2000, 3: 125, 4: 125, 15: 1968, 16: 123}[fc]
			for k := 0; k < g.Pick(3, 60); k++ {
				for lo := 1; lo <= max; lo += 250 {
					g.Emit(&Case{Kind: "legal-qty", FC: fc, Framing: fr, Lo: lo, Hi: min(lo+249, max), Seed: rng.Int63()})
				}
			}
			for lo := 0; lo < 65536; lo += 4096 {
				g.Emit(&Case{Kind: "illegal-qty", FC: fc, Framing: fr, Lo: lo, Hi: lo + 4095, Seed: rng.Int63()})
			}
		}
		for _, fc := range []uint8{5, 6, 17} {
			for k := 0; k < g.Pick(6, 200); k++ {
				g.Emit(&Case{Kind: "legal-rand", FC: fc, Framing: fr, Seed: rng.Int63()})
			}
		}
		for lo := 0; lo < 65536; lo += 8192 {
			g.Emit(&Case{Kind: "fc5-values", FC: 5, Framing: fr, Lo: lo, Hi: lo + 8191, Seed: rng.Int63()})
		}
		for k := 0; k < g.Pick(6, 100); k++ {
			g.Emit(&Case{Kind: "fc23", FC: 23, Framing: fr, Seed: rng.Int63(), Lo: 0})
		}
		for lo := 0; lo < 65536; lo += 8192 {
			g.Emit(&Case{Kind: "fc23", FC: 23, Framing: fr, Seed: rng.Int63(), Lo: 1 + lo, Hi: lo + 8192})
		}
	}
}

type ent struct {
	e     libx.Entry
	strip bool // feed Bytes() without the CRC trailer
}

var entries = map[[2]int][]ent{}

func init() {
	for _, e := range libx.Entries() {
		if e.Kind != "req" {
			continue
		}
		for _, fc := range specref.FCs {
			if e.FC != 0 && e.FC != fc {
				continue
			}
			k := [2]int{int(fc), int(e.Framing)}
			entries[k] = append(entries[k], ent{e, false})
			if e.Framing == specref.RTU && e.FC != 0 {
				entries[k] = append(entries[k], ent{e, true})
			}
		}
	}
}

// structLiteral builds the library request value directly (exported fields), bypassing constructor validation.
func structLiteral(fr specref.Framing, q specref.Req) packet.Request {
	if q.FC != 23 {
		return nil
	}
	body := packet.ReadWriteMultipleRegistersRequest{UnitID: q.Unit, ReadStartAddress: q.Addr, ReadQuantity: q.Qty, WriteStartAddress: q.WAddr, WriteQuantity: q.WQty, WriteData: q.Data}
	if fr == specref.TCP {
		return &packet.ReadWriteMultipleRegistersRequestTCP{MBAPHeader: packet.MBAPHeader{TransactionID: q.TID}, ReadWriteMultipleRegistersRequest: body}
	}
	return &packet.ReadWriteMultipleRegistersRequestRTU{ReadWriteMultipleRegistersRequest: body}
}

func checkLegal(c *Case, r *mon.Rec, fr specref.Framing, q specref.Req, qty int) {
	req, err := libx.NewRequest(fr, q)
	if err != nil {
		req = structLiteral(fr, q)
		if req == nil {
			r.Cover("constructor-refused-legal", fmt.Sprintf("fc%d", q.FC)) // C01 allows refusing; nothing encoded, nothing to check
			return
		}
		r.Cover("via-struct-literal", fmt.Sprintf("fc%d", q.FC))
	}
	checkLegalReq(c, r, fr, q, qty, req)
	// values of the same request that the constructors never produce but a caller (or a foreign master whose frame is
	// re-encoded) legitimately does: the extreme transaction ids, and an FC15 payload whose spare bits in the last byte are
	// not zero (the specification says masters "should" zero-fill them; the quantity decides which bits count, and
	// encode -> parse -> encode has to give the bytes back either way)
	if (int(q.Addr)+qty)%4 == 0 {
		if fr == specref.TCP {
			for _, tid := range []uint16{0, 0xFFFF} {
				q2 := q
				q2.TID = tid
				if r2, err := libx.NewRequest(fr, q2); err == nil {
					checkLegalReq(c, r, fr, q2, qty, r2)
					r.Cover("extreme-transaction-id", fmt.Sprint(tid))
				}
			}
		}
		if q.FC == 15 && q.Qty%8 != 0 && len(q.Data) > 0 {
			q2 := q
			q2.Data = append([]byte{}, q.Data...)
			q2.Data[len(q2.Data)-1] |= byte(0xFF) << (q.Qty % 8) & byte(0x55+qty)
			body := packet.WriteMultipleCoilsRequest{UnitID: q2.Unit, StartAddress: q2.Addr, CoilCount: q2.Qty, Data: append([]byte{}, q2.Data...)}
			var r2 packet.Request = &packet.WriteMultipleCoilsRequestRTU{WriteMultipleCoilsRequest: body}
			if fr == specref.TCP {
				r2 = &packet.WriteMultipleCoilsRequestTCP{MBAPHeader: packet.MBAPHeader{TransactionID: q2.TID}, WriteMultipleCoilsRequest: body}
			}
			checkLegalReq(c, r, fr, q2, qty, r2)
			r.Cover("fc15-spare-bits-set", "struct-literal")
		}
	}
}

func checkLegalReq(c *Case, r *mon.Rec, fr specref.Framing, q specref.Req, qty int, req packet.Request) {
	wire := req.Bytes()
	if ref := q.Encode(fr); !bytes.Equal(wire, ref) {
		// the encoder itself deviates from the reference encoding (C01 reports that); what it emitted still has to
		// survive the library's own parsers unchanged
		r.Cover("encoder-deviates-from-reference", fmt.Sprintf("fc%d", q.FC))
	}
	for _, en := range entries[[2]int{int(q.FC), int(fr)}] {
		in := append([]byte{}, wire...)
		name := en.e.Name
		if en.strip {
			in = in[:len(in)-2]
			name += "/noCRC"
		}
		r.Eval(1)
		var v any
		var perr error
		if pn, txt := mon.Catch(func() { v, perr = en.e.F(in) }); pn {
			r.Violate(c, "parser-panics", mon.Attrs{"entry": name, "fc": int(q.FC)}, fmt.Sprintf("% x: %s", head(wire), txt))
			continue
		}
		a := mon.Attrs{"entry": name, "fc": int(q.FC), "framing": fr.String(), "qty": qty}
		if perr != nil {
			r.Violate(c, "refuses-legal", a, fmt.Sprintf("legal request %+v encoded as % x refused: %v", short(q), head(wire), perr))
			continue
		}
		r.Distinct(mon.Mix(1, uint64(q.FC), uint64(fr), uint64(qty), mon.HashS(name)))
		if !reflect.DeepEqual(v, any(req)) {
			delete(a, "qty")
			r.Violate(c, "decoded-differs", a, fmt.Sprintf("original %+v parsed %+v", req, v))
			continue
		}
		if pb := v.(packet.Request).Bytes(); !bytes.Equal(pb, wire) {
			delete(a, "qty")
			r.Violate(c, "reencode-differs", a, fmt.Sprintf("% x -> % x", head(wire), head(pb)))
			continue
		}
		// the receiver reuses its read buffer for the next frame: the decoded request must still equal the original
		for i := range in {
			in[i] ^= 0xA5
		}
		if !reflect.DeepEqual(v, any(req)) {
			delete(a, "qty")
			r.Violate(c, "decoded-request-aliases-input", a, fmt.Sprintf("after the input buffer was overwritten the decoded request reads %+v, original %+v", v, req))
			continue
		}
		// the decoded request belongs to the receiver, which may rewrite it (a gateway readdressing it before forwarding):
		// the next frame with the same bytes still decodes to the original
		if rv := reflect.ValueOf(v); rv.Kind() == reflect.Ptr && !rv.IsNil() && rv.Elem().CanSet() {
			rv.Elem().Set(reflect.Zero(rv.Elem().Type()))
			in2 := append([]byte{}, wire...)
			if en.strip {
				in2 = in2[:len(in2)-2]
			}
			var v2 any
			var perr2 error
			if pn, txt := mon.Catch(func() { v2, perr2 = en.e.F(in2) }); pn {
				r.Violate(c, "parser-panics", mon.Attrs{"entry": name, "fc": int(q.FC)}, fmt.Sprintf("second parse of % x: %s", head(wire), txt))
			} else if perr2 != nil || !reflect.DeepEqual(v2, any(req)) {
				delete(a, "qty")
				r.Violate(c, "decoded-requests-share-state", a, fmt.Sprintf("the request decoded from % x was overwritten by its receiver; decoding the same bytes again gives %+v (err %v), original %+v", head(wire), v2, perr2, req))
			}
		}
	}
}

func short(q specref.Req) specref.Req {
	if len(q.Data) > 8 {
		q.Data = q.Data[:8]
	}
	return q
}

func head(b []byte) []byte {
	if len(b) > 40 {
		return b[:40]
	}
	return b
}

func checkIllegal(c *Case, r *mon.Rec, fr specref.Framing, q specref.Req, what string, val int) {
	wire := q.Encode(fr)
	for _, en := range entries[[2]int{int(q.FC), int(fr)}] {
		in := append([]byte{}, wire...)
		name := en.e.Name
		if en.strip {
			in = in[:len(in)-2]
			name += "/noCRC"
		}
		r.Eval(1)
		var v any
		var perr error
		if pn, txt := mon.Catch(func() { v, perr = en.e.F(in) }); pn {
			r.Violate(c, "parser-panics", mon.Attrs{"entry": name, "fc": int(q.FC)}, fmt.Sprintf("% x: %s", head(wire), txt))
			continue
		}
		if perr == nil {
			r.Violate(c, "decodes-illegal", mon.Attrs{"entry": name, "fc": int(q.FC), "framing": fr.String(), "what": what, "value": val},
				fmt.Sprintf("frame % x (%s=%d outside the specification's limits) decoded as %+v", head(wire), what, val, v))
		} else if !libx.IsNilValue(v) {
			r.Violate(c, "error-with-value", mon.Attrs{"entry": name, "fc": int(q.FC)}, fmt.Sprintf("%T with error %v", v, perr))
		}
		if val < 3000 || val%97 == 0 {
			r.Distinct(mon.Mix(2, uint64(q.FC), uint64(fr), uint64(val), mon.HashS(name), mon.HashS(what)))
		}
	}
}

// runCube: legal requests over (8-bit field = c.Lo) x (all values of a 16-bit field):
// RTU: unit id x start address / value through ParseRTURequest, ParseRTURequestWithCRC;
// TCP: low byte of the transaction id x last 16-bit field (value / register) and unit id x transaction id through ParseTCPRequest.
func runCube(c *Case, r *mon.Rec) {
	rng := rand.New(rand.NewSource(c.Seed))
	b8 := uint8(c.Lo)
	bad := 0
	n := 0
	try := func(what string, req packet.Request, err error, parse func([]byte) (any, error), pname string) {
		if err != nil {
			return
		}
		wire := req.Bytes()
		n++
		v, perr := parse(append([]byte{}, wire...))
		switch {
		case perr != nil:
			bad++
			if bad <= 4 {
				r.Violate(c, "refuses-legal", mon.Attrs{"entry": pname, "fc": int(req.FunctionCode()), "cube": what}, fmt.Sprintf("legal request encoded by the library as % x refused: %v", head(wire), perr))
			}
		case !bytes.Equal(v.(packet.Request).Bytes(), wire):
			bad++
			if bad <= 4 {
				r.Violate(c, "reencode-differs", mon.Attrs{"entry": pname, "fc": int(req.FunctionCode()), "cube": what}, fmt.Sprintf("% x -> % x", head(wire), head(v.(packet.Request).Bytes())))
			}
		}
	}
	rtu := func(b []byte) (any, error) { return packet.ParseRTURequest(b) }
	rtuc := func(b []byte) (any, error) { return packet.ParseRTURequestWithCRC(b) }
	tcp := func(b []byte) (any, error) { return packet.ParseTCPRequest(b) }
	hi := uint16(rng.Intn(256)) << 8
	addr := uint16(rng.Intn(65536))
	for v := 0; v < 65536; v++ {
		x := uint16(v)
		// RTU: unit b8, field x
		q3, e3 := packet.NewReadHoldingRegistersRequestRTU(b8, x, 2)
		try("rtu unit x address", q3, e3, rtu, "ParseRTURequest")
		try("rtu unit x address", q3, e3, rtuc, "ParseRTURequestWithCRC")
		q6, e6 := packet.NewWriteSingleRegisterRequestRTU(b8, addr, []byte{byte(v >> 8), byte(v)})
		try("rtu unit x value", q6, e6, rtuc, "ParseRTURequestWithCRC")
		if r.Thorough() || v%4 == 1 {
			q1, e1 := packet.NewReadCoilsRequestRTU(b8, x, 16)
			try("rtu unit x address", q1, e1, rtuc, "ParseRTURequestWithCRC")
			q16, e16 := packet.NewWriteMultipleRegistersRequestRTU(b8, x, []byte{1, 2})
			try("rtu unit x address", q16, e16, rtuc, "ParseRTURequestWithCRC")
		}
		// TCP: transaction id low byte b8 x last 16-bit field
		t6, te6 := packet.NewWriteSingleRegisterRequestTCP(uint8(v>>3), addr, []byte{byte(v >> 8), byte(v)})
		if te6 == nil {
			t6.TransactionID = hi | uint16(b8)
		}
		try("tcp tid-low x value", t6, te6, tcp, "ParseTCPRequest")
		t16, te16 := packet.NewWriteMultipleRegistersRequestTCP(3, addr, []byte{9, 9, byte(v >> 8), byte(v)})
		if te16 == nil {
			t16.TransactionID = hi | uint16(b8)
		}
		try("tcp tid-low x last register", t16, te16, tcp, "ParseTCPRequest")
		// TCP: unit b8 x transaction id x
		t3, te3 := packet.NewReadHoldingRegistersRequestTCP(b8, addr, 7)
		if te3 == nil {
			t3.TransactionID = x
		}
		try("tcp unit x tid", t3, te3, tcp, "ParseTCPRequest")
	}
	r.Eval(n)
	r.Distinct(mon.Mix(0xC0BE, uint64(c.Lo)))
	r.CoverN("cube", "frames", int64(n))
}

// runTwin: two different legal RTU requests of the same length whose CRC-16 is the same (for a given 8-byte frame about
// one write-single-register value in 65536 collides; found by sweeping the value). Parsed one right after the other
// through the CRC entry point, each decodes to itself: a checksum does not identify a frame.
func runTwin(c *Case, r *mon.Rec) {
	rng := rand.New(rand.NewSource(c.Seed))
	unit := libx.U8(rng)
	qa, err := packet.NewReadHoldingRegistersRequestRTU(unit, libx.U16(rng), uint16(1+rng.Intn(125)))
	if err != nil {
		return
	}
	wa := qa.Bytes()
	addr := libx.U16(rng)
	var twins []packet.Request
	for v := 0; v < 65536 && len(twins) < 3; v++ {
		qb, err := packet.NewWriteSingleRegisterRequestRTU(unit, addr, []byte{byte(v >> 8), byte(v)})
		if err != nil {
			continue
		}
		if wb := qb.Bytes(); wb[6] == wa[6] && wb[7] == wa[7] {
			twins = append(twins, qb)
		}
	}
	r.Eval(1)
	r.CoverN("crc-twin", "pairs-found", int64(len(twins)))
	for _, qb := range twins {
		wb := qb.Bytes()
		for _, order := range [][2][]byte{{wa, wb}, {wb, wa}} {
			for k, w := range order {
				v, perr := packet.ParseRTURequestWithCRC(append([]byte{}, w...))
				r.Eval(1)
				if perr != nil {
					r.Violate(c, "refuses-legal", mon.Attrs{"entry": "ParseRTURequestWithCRC", "fc": int(w[1]), "cube": "crc-twin"}, fmt.Sprintf("legal request % x (parsed right after % x, which has the same CRC) refused: %v", w, order[1-k], perr))
				} else if !bytes.Equal(v.Bytes(), w) {
					r.Violate(c, "decoded-differs", mon.Attrs{"entry": "ParseRTURequestWithCRC", "fc": int(w[1]), "framing": "rtu", "twin": true}, fmt.Sprintf("request % x parsed right after % x (same length, same CRC) decodes to %+v, which encodes as % x", w, order[1-k], v, v.Bytes()))
				}
			}
		}
		r.Distinct(mon.Mix(0x7717, uint64(c.Seed), uint64(wb[4])<<8|uint64(wb[5])))
	}
}

func run(ci any, r *mon.Rec) {
	c := ci.(*Case)
	defer func() {
		// the constructors are given sub-slices of larger buffers (libx.NewRequest): the caller's memory must come back untouched
		if m := libx.TakeArgMutation(); m != "" {
			r.Violate(c, "constructor-mutates-argument", mon.Attrs{}, m)
		}
	}()
	if c.Kind == "cube" {
		runCube(c, r)
		return
	}
	if c.Kind == "crc-twin" {
		runTwin(c, r)
		return
	}
	fr := specref.Framing(c.Framing)
	rng := rand.New(rand.NewSource(c.Seed))
	switch c.Kind {
	case "legal-qty":
		for qty := c.Lo; qty <= c.Hi; qty++ {
			q := specref.Req{FC: c.FC, Unit: libx.U8(rng), TID: libx.U16(rng), Addr: libx.U16(rng), Qty: uint16(qty)}
			switch c.FC {
			case 15:
				q.Data = libx.RandBytes(rng, (qty+7)/8)
				if k := qty % 8; k != 0 {
					q.Data[len(q.Data)-1] &= byte(1<<uint(k)) - 1
				}
			case 16:
				q.Data = libx.RandBytes(rng, 2*qty)
			}
			checkLegal(c, r, fr, q, qty)
		}
		r.Sample(c)
	case "legal-rand":
		for i := 0; i < 500; i++ {
			q := libx.LegalReq(rng, c.FC, 0.5)
			checkLegal(c, r, fr, q, int(q.Value))
		}
	case "illegal-qty":
		max := map[uint8]int{1: 2000, 2: 2000, 3: 125, 4: 125, 15: 1968, 16: 123}[c.FC]
		for qty := c.Lo; qty <= c.Hi; qty++ {
			if qty >= 1 && qty <= max {
				continue
			}
			q := specref.Req{FC: c.FC, Unit: libx.U8(rng), TID: libx.U16(rng), Addr: libx.U16(rng), Qty: uint16(qty)}
			switch c.FC {
			case 15:
				n := (qty + 7) / 8
				if n > 255 {
					n = []int{0, 1, 246, 255}[rng.Intn(4)]
				}
				q.Data = libx.RandBytes(rng, n)
			case 16:
				n := 2 * qty
				if n > 255 {
					n = []int{0, 2, 246, 254}[rng.Intn(4)]
				}
				q.Data = libx.RandBytes(rng, n)
			}
			checkIllegal(c, r, fr, q, "qty", qty)
		}
	case "fc5-values":
		for v := c.Lo; v <= c.Hi; v++ {
			q := specref.Req{FC: 5, Unit: libx.U8(rng), TID: libx.U16(rng), Addr: libx.U16(rng), Value: uint16(v)}
			if v == 0 || v == 0xFF00 {
				checkLegal(c, r, fr, q, v)
			} else {
				checkIllegal(c, r, fr, q, "coil-value", v)
			}
		}
	case "fc23":
		if c.Lo == 0 {
			// whole legal grid of read x write quantities (sampled payloads)
			for rq := 1; rq <= 125; rq++ {
				for _, wq := range []int{1, 2, 1 + rng.Intn(121), 120, 121} {
					q := specref.Req{FC: 23, Unit: libx.U8(rng), TID: libx.U16(rng), Addr: libx.U16(rng), Qty: uint16(rq), WAddr: libx.U16(rng), WQty: uint16(wq), Data: libx.RandBytes(rng, 2*wq)}
					checkLegal(c, r, fr, q, rq)
				}
			}
			for wq := 1; wq <= 121; wq++ {
				q := specref.Req{FC: 23, Unit: libx.U8(rng), TID: libx.U16(rng), Addr: libx.U16(rng), Qty: uint16(1 + rng.Intn(125)), WAddr: libx.U16(rng), WQty: uint16(wq), Data: libx.RandBytes(rng, 2*wq)}
				checkLegal(c, r, fr, q, wq)
			}
			return
		}
		for v := c.Lo; v <= c.Hi; v++ {
			vv := v % 65536
			// illegal read quantity with a legal write part
			if !(vv >= 1 && vv <= 125) {
				wq := 1 + rng.Intn(121)
				q := specref.Req{FC: 23, Unit: libx.U8(rng), TID: libx.U16(rng), Addr: libx.U16(rng), Qty: uint16(vv), WAddr: libx.U16(rng), WQty: uint16(wq), Data: libx.RandBytes(rng, 2*wq)}
				checkIllegal(c, r, fr, q, "rqty", vv)
			}
			// illegal write quantity with a legal read part; byte count consistent while it fits one byte
			if !(vv >= 1 && vv <= 121) {
				n := 2 * vv
				if n > 255 {
					n = []int{0, 2, 242, 254}[rng.Intn(4)]
				}
				q := specref.Req{FC: 23, Unit: libx.U8(rng), TID: libx.U16(rng), Addr: libx.U16(rng), Qty: uint16(1 + rng.Intn(125)), WAddr: libx.U16(rng), WQty: uint16(vv), Data: libx.RandBytes(rng, n)}
				checkIllegal(c, r, fr, q, "wqty", vv)
			}
		}
	}
}

// Package props lists the property checks.
package props

import (
	"verif/mon"
	"verif/props/c03"
)

// Registry maps property ids to spec constructors.
func Registry() map[string]func() *mon.Spec {
	return map[string]func() *mon.Spec{
		"C03": c03.Spec,
	}
}

// Package props lists the property checks.
package props

import (
	"verif/mon"
	"verif/props/c01"
	"verif/props/c02"
	"verif/props/c03"
	"verif/props/c04"
	"verif/props/c05"
	"verif/props/c06"
	"verif/props/c07"
	"verif/props/c08"
	"verif/props/c09"
	"verif/props/c10"
	"verif/props/c11"
	"verif/props/c12"
	"verif/props/c13"
	"verif/props/c14"
	"verif/props/c15"
	"verif/props/c16"
	"verif/props/c17"
	"verif/props/c18"
	"verif/props/c19"
)

// Registry maps property ids to spec constructors.
func Registry() map[string]func() *mon.Spec {
	return map[string]func() *mon.Spec{
		"C01": c01.Spec,
		"C02": c02.Spec,
		"C03": c03.Spec,
		"C04": c04.Spec,
		"C05": c05.Spec,
		"C06": c06.Spec,
		"C07": c07.Spec,
		"C08": c08.Spec,
		"C09": c09.Spec,
		"C10": c10.Spec,
		"C11": c11.Spec,
		"C12": c12.Spec,
		"C13": c13.Spec,
		"C14": c14.Spec,
		"C15": c15.Spec,
		"C16": c16.Spec,
		"C17": c17.Spec,
		"C18": c18.Spec,
		"C19": c19.Spec,
	}
}

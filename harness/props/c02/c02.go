// Package c02: responses decode to exactly what was sent; exceptions become typed errors.
package c02

import (
	"bytes"
	"errors"
	"fmt"
	"math/rand"

	"github.com/aldas/go-modbus-client/packet"
	"verif/libx"
	"verif/mon"
	"verif/specref"
)

type Case struct {
	Kind    string `json:"kind"` // wf | exc | mismatch | weak
	FC      uint8  `json:"fc"`
	Framing int    `json:"framing"`
	N       int    `json:"n"` // byte count / quantity / id length depending on fc
	Seed    int64  `json:"seed"`
	Reps    int    `json:"reps"`
	AllUnit bool   `json:"all_unit,omitempty"`
}

func Spec() *mon.Spec {
	return &mon.Spec{
		ID:      "C02",
		RuleAdd: "Later additions (rounds 4-17): surplus bytes behind a frame (1..8, 256 and 512 bytes); the full 128 x 256 exception cube with content checks; parser panics are caught and reported per entry point.",
		Level:   "exploration",
		Rule: "wf: reference-encoded well-formed response frames: FC1/2 every byte count 1..250, FC3/4/23 every even count 2..250, FC5 both values, FC6 PRNG values, FC15 quantities 1..1968, FC16 1..123, FC17 id length 1..120 x additional 0..120; PRNG/structured payloads, boundary+PRNG tid, unit. Each frame goes through the dispatcher(s) (ParseTCPResponse | ParseRTUResponse + ParseRTUResponseWithCRC) and the per-function parser; oracle: no error, every decoded field equals the reference decoder's, Bytes()==frame, FunctionCode()==fc. " +
			"exc: all 128 exception function codes x all 256 codes x units: nil response, errors.As typed exception with unit/function/code(/tid). mismatch: byte-count field +-1..3 and frames truncated/extended by 1..3 (framing kept consistent), and TCP frames followed by 1..3 bytes their header does not count: must be rejected. weak: byte count 0, 251..255, odd register counts: error or exact decode. distinct key=(kind, fc, framing, byte count, entry point).",
		Assumptions: []string{"FC17 layout as documented by the library (count = server id length, run status, optional additional data); the specification leaves the split device specific",
			"FC5 replies with a value other than 0x0000/0xFF00 are not well-formed and not generated"},
		NewCase:  func() any { return &Case{} },
		Gen:      gen,
		Run:      run,
		SelfTest: specref.SelfTest,
	}
}

func gen(g *mon.Gen) {
	rng := g.Rng
	vals := []int{0, 1, 17, 58, 128, 255}
	if g.Thorough() {
		vals = vals[:0]
		for v := 0; v < 256; v++ {
			vals = append(vals, v)
		}
	} else {
		for k := 0; k < 10; k++ {
			vals = append(vals, rng.Intn(256))
		}
	}
	for _, v := range vals {
		g.Emit(&Case{Kind: "cube", N: v, Seed: rng.Int63()})
	}
	reps := g.Pick(6, 400)
	for fr := 0; fr < 2; fr++ {
		for _, fc := range []uint8{1, 2} {
			for n := 1; n <= 250; n++ {
				g.Emit(&Case{Kind: "wf", FC: fc, Framing: fr, N: n, Seed: rng.Int63(), Reps: reps})
			}
		}
		for _, fc := range []uint8{3, 4, 23} {
			for n := 2; n <= 250; n += 2 {
				g.Emit(&Case{Kind: "wf", FC: fc, Framing: fr, N: n, Seed: rng.Int63(), Reps: reps})
			}
		}
		for _, fc := range []uint8{5, 6} {
			for k := 0; k < g.Pick(10, 100); k++ {
				g.Emit(&Case{Kind: "wf", FC: fc, Framing: fr, Seed: rng.Int63(), Reps: reps * 4})
			}
		}
		step := g.Pick(7, 1)
		for n := 1; n <= 1968; n += step {
			g.Emit(&Case{Kind: "wf", FC: 15, Framing: fr, N: n, Seed: rng.Int63(), Reps: reps})
		}
		for n := 1; n <= 123; n++ {
			g.Emit(&Case{Kind: "wf", FC: 16, Framing: fr, N: n, Seed: rng.Int63(), Reps: reps})
		}
		for n := 1; n <= 120; n++ {
			g.Emit(&Case{Kind: "wf", FC: 17, Framing: fr, N: n, Seed: rng.Int63(), Reps: reps})
		}
		for fc := 0; fc < 128; fc++ {
			g.Emit(&Case{Kind: "exc", FC: uint8(fc), Framing: fr, Seed: rng.Int63(), AllUnit: g.Thorough()})
		}
		for _, fc := range []uint8{1, 2, 3, 4, 23} {
			stepN := g.Pick(3, 1)
			for n := 1; n <= 250; n += stepN {
				g.Emit(&Case{Kind: "mismatch", FC: fc, Framing: fr, N: n, Seed: rng.Int63(), Reps: g.Pick(2, 8)})
			}
			g.Emit(&Case{Kind: "weak", FC: fc, Framing: fr, Seed: rng.Int63(), Reps: g.Pick(4, 40)})
		}
		g.Emit(&Case{Kind: "weak", FC: 17, Framing: fr, Seed: rng.Int63(), Reps: g.Pick(4, 40)})
		for n := 1; n <= 120; n += g.Pick(5, 1) {
			g.Emit(&Case{Kind: "mismatch", FC: 17, Framing: fr, N: n, Seed: rng.Int63(), Reps: g.Pick(2, 8)})
		}
	}
}

func entriesFor(fc uint8, fr specref.Framing) []*libx.Entry {
	var out []*libx.Entry
	for _, e := range libx.Entries() {
		if e.Kind != "resp" || e.Framing != fr {
			continue
		}
		if e.FC == 0 || e.FC == fc {
			e := e
			out = append(out, &e)
		}
	}
	return out
}

var entryCache = map[[2]int][]*libx.Entry{}

func init() {
	for _, fc := range specref.FCs {
		for fr := 0; fr < 2; fr++ {
			entryCache[[2]int{int(fc), fr}] = entriesFor(fc, specref.Framing(fr))
		}
	}
}

func eqResp(a, b specref.Resp, fr specref.Framing) string {
	if a.FC != b.FC {
		return "function"
	}
	if a.Unit != b.Unit {
		return "unit"
	}
	if fr == specref.TCP && a.TID != b.TID {
		return "tid"
	}
	if !bytes.Equal(a.Data, b.Data) {
		return "data"
	}
	if a.Addr != b.Addr {
		return "address"
	}
	if a.Qty != b.Qty {
		return "quantity"
	}
	if a.Value != b.Value {
		return "value"
	}
	if !bytes.Equal(a.ServerID, b.ServerID) {
		return "server-id"
	}
	if a.Status != b.Status {
		return "status"
	}
	if !bytes.Equal(a.Additional, b.Additional) {
		return "additional"
	}
	return ""
}

func mkResp(rng *rand.Rand, c *Case) specref.Resp {
	p := specref.Resp{FC: c.FC, Unit: libx.U8(rng), TID: libx.U16(rng)}
	switch c.FC {
	case 1, 2, 3, 4, 23:
		p.Data = libx.RandBytes(rng, c.N)
	case 5:
		p.Addr, p.Value = libx.U16(rng), []uint16{0, 0xFF00}[rng.Intn(2)]
	case 6:
		p.Addr, p.Value = libx.U16(rng), libx.U16(rng)
	case 15, 16:
		p.Addr, p.Qty = libx.U16(rng), uint16(c.N)
	case 17:
		p.ServerID = libx.RandBytes(rng, c.N)
		p.Status = []uint8{0, 0xFF, uint8(rng.Intn(256))}[rng.Intn(3)]
		if k := rng.Intn(4); k > 0 {
			p.Additional = libx.RandBytes(rng, []int{0, 1, rng.Intn(121), 120}[k])
		}
	}
	return p
}

func run(ci any, r *mon.Rec) {
	c := ci.(*Case)
	fr := specref.Framing(c.Framing)
	rng := rand.New(rand.NewSource(c.Seed))
	switch c.Kind {
	case "wf":
		for i := 0; i < c.Reps; i++ {
			p := mkResp(rng, c)
			frame := p.Encode(fr)
			for _, e := range entryCache[[2]int{int(c.FC), c.Framing}] {
				checkWF(c, r, e, fr, p, frame)
			}
		}
		r.Sample(c)
	case "cube":
		runCube(c, r, rng)
	case "exc":
		runExc(c, r, fr, rng)
	case "mismatch":
		runMismatch(c, r, fr, rng)
	case "weak":
		runWeak(c, r, fr, rng)
	}
}

func checkWF(c *Case, r *mon.Rec, e *libx.Entry, fr specref.Framing, p specref.Resp, frame []byte) {
	r.Eval(1)
	in := append([]byte{}, frame...)
	var v any
	var err error
	if pn, txt := mon.Catch(func() { v, err = e.F(in) }); pn {
		r.Violate(c, "parser-panics", mon.Attrs{"entry": e.Name, "fc": int(c.FC)}, fmt.Sprintf("% x: %s", frame, txt))
		return
	}
	a := mon.Attrs{"entry": e.Name, "fc": int(c.FC), "framing": fr.String()}
	if err != nil {
		a["n"] = c.N
		r.Violate(c, "rejects-well-formed", a, fmt.Sprintf("frame (%d bytes) % x: %v", len(frame), head(frame), err))
		return
	}
	got, gfr, ok := libx.FromLibResponse(v)
	if !ok || gfr != fr {
		r.Violate(c, "wrong-type", a, fmt.Sprintf("%T for fc %d", v, c.FC))
		return
	}
	if d := eqResp(got, p, fr); d != "" {
		a["field"] = d
		r.Violate(c, "field-differs", a, fmt.Sprintf("frame % x: decoded %+v want %+v", head(frame), got, p))
	}
	resp := v.(packet.Response)
	if b, txt := safeBytes(resp); txt != "" {
		r.Violate(c, "bytes-panics", a, fmt.Sprintf("frame % x parsed, Bytes() panics: %s", head(frame), txt))
	} else if !bytes.Equal(b, frame) {
		r.Violate(c, "reencode-differs", a, fmt.Sprintf("frame % x -> Bytes() % x", head(frame), head(b)))
	}
	if f := resp.FunctionCode(); f != c.FC {
		r.Violate(c, "functioncode-differs", a, fmt.Sprint(f))
	}
	r.Distinct(mon.Mix(1, uint64(c.FC), uint64(fr), uint64(len(frame)), mon.HashS(e.Name)))
}

func safeBytes(resp packet.Response) (b []byte, txt string) {
	if pn, t := mon.Catch(func() { b = resp.Bytes() }); pn {
		return nil, "panic: " + t
	}
	return b, ""
}

func head(b []byte) []byte {
	if len(b) > 48 {
		return b[:48]
	}
	return b
}

func runExc(c *Case, r *mon.Rec, fr specref.Framing, rng *rand.Rand) {
	units := []int{0, 1, 17, 127, 128, 255}
	if c.AllUnit {
		units = units[:0]
		for u := 0; u < 256; u++ {
			units = append(units, u)
		}
	}
	n := 0
	for _, u := range units {
		for code := 0; code < 256; code++ {
			p := specref.Resp{FC: c.FC, Unit: uint8(u), TID: uint16(rng.Intn(65536)), Exception: true, ExCode: uint8(code)}
			frame := p.Encode(fr)
			for _, e := range entryCache[[2]int{1, c.Framing}] {
				if e.FC != 0 {
					continue
				}
				n++
				var v any
				var err error
				if pn, txt := mon.Catch(func() { v, err = e.F(append([]byte{}, frame...)) }); pn {
					r.Violate(c, "parser-panics", mon.Attrs{"entry": e.Name, "exception": true}, fmt.Sprintf("% x: %s", frame, txt))
					continue
				}
				a := mon.Attrs{"entry": e.Name, "framing": fr.String()}
				if err == nil {
					r.Violate(c, "exception-as-response", a, fmt.Sprintf("frame % x returned %T without error", frame, v))
					continue
				}
				if !libx.IsNilValue(v) {
					r.Violate(c, "exception-with-value", a, fmt.Sprintf("frame % x returned %T with error %v", frame, v, err))
				}
				if fr == specref.TCP {
					var ex *packet.ErrorResponseTCP
					if !errors.As(err, &ex) {
						r.Violate(c, "exception-untyped", a, fmt.Sprintf("frame % x: error %T %v", frame, err, err))
					} else if ex.TransactionID != p.TID || ex.UnitID != p.Unit || ex.Function != c.FC || ex.Code != p.ExCode {
						r.Violate(c, "exception-fields", a, fmt.Sprintf("frame % x: %+v", frame, *ex))
					}
				} else {
					var ex *packet.ErrorResponseRTU
					if !errors.As(err, &ex) {
						r.Violate(c, "exception-untyped", a, fmt.Sprintf("frame % x: error %T %v", frame, err, err))
					} else if ex.UnitID != p.Unit || ex.Function != c.FC || ex.Code != p.ExCode {
						r.Violate(c, "exception-fields", a, fmt.Sprintf("frame % x: %+v", frame, *ex))
					}
				}
			}
		}
		r.Distinct(mon.Mix(2, uint64(c.FC), uint64(fr), uint64(u)))
	}
	r.Eval(n)
	r.CoverN("exception-frames", fr.String(), int64(n))
}

// reframe rebuilds a consistent ADU around a (possibly inconsistent) PDU.
func reframe(fr specref.Framing, p specref.Resp, pdu []byte) []byte {
	return specref.Frame(fr, p.TID, p.Unit, pdu)
}

func expectReject(c *Case, r *mon.Rec, fr specref.Framing, frame []byte, how string, delta int) {
	for _, e := range entryCache[[2]int{int(c.FC), c.Framing}] {
		r.Eval(1)
		var v any
		var err error
		if pn, txt := mon.Catch(func() { v, err = e.F(append([]byte{}, frame...)) }); pn {
			r.Violate(c, "parser-panics", mon.Attrs{"entry": e.Name, "fc": int(c.FC)}, fmt.Sprintf("% x: %s", head(frame), txt))
			continue
		}
		if err == nil {
			r.Violate(c, "accepts-length-mismatch", mon.Attrs{"entry": e.Name, "fc": int(c.FC), "framing": fr.String(), "how": how},
				fmt.Sprintf("byte count %d, delta %d: frame (%d bytes) % x accepted as %T", c.N, delta, len(frame), head(frame), v))
		}
		r.Distinct(mon.Mix(3, uint64(c.FC), uint64(fr), uint64(c.N), mon.HashS(how), uint64(delta+8), mon.HashS(e.Name)))
	}
}

func runMismatch(c *Case, r *mon.Rec, fr specref.Framing, rng *rand.Rand) {
	for i := 0; i < c.Reps; i++ {
		p := mkResp(rng, c)
		pdu := p.PDU()
		if c.FC == 17 {
			// cut inside the id / status area: fewer than N+1 bytes follow the count
			for _, keep := range []int{0, c.N / 2, c.N - 1, c.N} {
				if keep < 0 || 2+keep > len(pdu) {
					continue
				}
				cut := append([]byte{}, pdu[:2+keep]...)
				expectReject(c, r, fr, reframe(fr, p, cut), "fc17-cut", keep-c.N-1)
			}
			continue
		}
		if fr == specref.TCP {
			// (c) (not FC17, whose count only fixes the id length: bytes after the status are additional data) a consistent frame followed by bytes its own header and byte count do not account for: the byte
			// string handed to the parser is longer than the frame it describes
			for d := 1; d <= 3; d++ {
				expectReject(c, r, fr, append(p.Encode(fr), libx.RandBytes(rng, d)...), "surplus-after-frame", d)
			}
		}
		// (d) a whole multiple of 256 too many bytes (a length comparison done in 8 bits would not notice), header covering them
		for _, d := range []int{256, 512} {
			m := append(append([]byte{}, pdu...), libx.RandBytes(rng, d)...)
			expectReject(c, r, fr, reframe(fr, p, m), "payload-length", d)
		}
		for d := -3; d <= 3; d++ {
			if d == 0 {
				continue
			}
			// (a) byte-count field changed, payload unchanged
			if nc := c.N + d; nc >= 0 && nc <= 255 {
				m := append([]byte{}, pdu...)
				m[1] = byte(nc)
				expectReject(c, r, fr, reframe(fr, p, m), "count-field", d)
			}
			// (b) payload truncated / extended, count field unchanged
			if l := len(pdu) + d; l >= 2 {
				var m []byte
				if d < 0 {
					m = append([]byte{}, pdu[:l]...)
				} else {
					m = append(append([]byte{}, pdu...), libx.RandBytes(rng, d)...)
				}
				expectReject(c, r, fr, reframe(fr, p, m), "payload-length", d)
			}
		}
	}
}

func runWeak(c *Case, r *mon.Rec, fr specref.Framing, rng *rand.Rand) {
	var counts []int
	counts = append(counts, 0, 251, 252, 253, 254, 255)
	if c.FC == 17 { // id lengths beyond what a 253-byte PDU can hold, still expressible in the one-byte count
		counts = []int{121, 200, 248, 249, 250, 251, 252, 253, 254, 255}
	}
	if c.FC == 3 || c.FC == 4 || c.FC == 23 {
		for n := 1; n <= 249; n += 2 {
			counts = append(counts, n)
		}
	}
	for i := 0; i < c.Reps; i++ {
		for _, n := range counts {
			cc := *c
			cc.N = n
			p := mkResp(rng, &cc)
			frame := p.Encode(fr)
			for _, e := range entryCache[[2]int{int(c.FC), c.Framing}] {
				r.Eval(1)
				var v any
				var err error
				if pn, txt := mon.Catch(func() { v, err = e.F(append([]byte{}, frame...)) }); pn {
					r.Violate(c, "parser-panics", mon.Attrs{"entry": e.Name, "fc": int(c.FC)}, fmt.Sprintf("% x: %s", head(frame), txt))
					continue
				}
				r.Distinct(mon.Mix(4, uint64(c.FC), uint64(fr), uint64(n), mon.HashS(e.Name)))
				if err != nil {
					r.Cover("weak-class", "rejected")
					continue
				}
				r.Cover("weak-class", "decoded")
				got, _, ok := libx.FromLibResponse(v)
				if !ok {
					r.Violate(c, "wrong-type", mon.Attrs{"entry": e.Name, "fc": int(c.FC)}, fmt.Sprintf("%T", v))
					continue
				}
				if d := eqResp(got, p, fr); d != "" {
					r.Violate(c, "field-differs", mon.Attrs{"entry": e.Name, "fc": int(c.FC), "framing": fr.String(), "field": d, "weak": true}, fmt.Sprintf("count %d: frame % x decoded %+v", n, head(frame), got))
				}
				if b, txt := safeBytes(v.(packet.Response)); txt != "" {
					r.Violate(c, "bytes-panics", mon.Attrs{"entry": e.Name, "fc": int(c.FC), "framing": fr.String(), "weak": true, "count": n}, fmt.Sprintf("frame with byte count %d parsed, Bytes() panics: %s", n, txt))
				} else if !bytes.Equal(b, frame) {
					r.Violate(c, "reencode-differs", mon.Attrs{"entry": e.Name, "fc": int(c.FC), "framing": fr.String(), "weak": true}, fmt.Sprintf("count %d: frame % x -> % x", n, head(frame), head(b)))
				}
			}
		}
	}
}

// runCube: (8-bit field c.N) x (all values of a 16-bit field) for response shapes with free-form tails:
// FC17 (one server-id byte x the last two additional bytes), FC3/FC6 (unit x value), both framings, dispatcher + per-function parser.
func runCube(c *Case, r *mon.Rec, rng *rand.Rand) {
	b8 := uint8(c.N)
	tid := uint16(rng.Intn(65536))
	unit := uint8(rng.Intn(256))
	for v := 0; v < 65536; v++ {
		lo, hi := byte(v), byte(v>>8)
		ps := []specref.Resp{
			{FC: 17, Unit: unit, TID: tid, ServerID: []byte{b8, 7}, Status: 0xFF, Additional: []byte{1, hi, lo}},
			{FC: 3, Unit: b8, TID: tid, Data: []byte{hi, lo}},
			{FC: 6, Unit: b8, TID: tid, Addr: uint16(c.N) * 257, Value: uint16(v)},
		}
		if v%8 == 0 || r.Thorough() {
			ps = append(ps, specref.Resp{FC: 1, Unit: b8, TID: tid, Data: []byte{hi, lo}}, specref.Resp{FC: 23, Unit: b8, TID: tid, Data: []byte{9, 9, hi, lo}})
		}
		for _, p := range ps {
			for _, f := range []specref.Framing{specref.TCP, specref.RTU} {
				frame := p.Encode(f)
				cc := *c
				cc.FC = p.FC
				for _, e := range entryCache[[2]int{int(p.FC), int(f)}] {
					checkWF(&cc, r, e, f, p, frame)
				}
			}
		}
	}
}

// Package c10: no parser panics or reads past its input, for any byte string.
package c10

import (
	"bytes"
	"context"
	"errors"
	"fmt"
	"go/ast"
	"go/parser"
	"go/token"
	"io"
	"io/fs"
	"math/rand"
	"os"
	"path/filepath"
	"reflect"
	"regexp"
	"sort"
	"strings"

	"github.com/aldas/go-modbus-client/packet"
	"github.com/aldas/go-modbus-client/server"
	"verif/libx"
	"verif/mon"
	"verif/specref"
)

type Case struct {
	Kind string `json:"kind"` // tcp-consistent | rtu-shaped | mutate | small | random
	FC   int    `json:"fc"`
	Lo   int    `json:"lo"`
	Hi   int    `json:"hi"`
	Seed int64  `json:"seed"`
	N    int    `json:"n"`
}

var entries = libx.Entries()

func Spec() *mon.Spec {
	return &mon.Spec{
		ID:      "C10",
		RuleAdd: "Later additions (rounds 4-17): nil value with nil error; the caller's buffer incl. spare capacity compared before and after every call; Error(), errors.Is and errors.As on every returned error under recover; nil slices; a classifier that accepts fewer than 8 bytes is reported before the assembler is fed.",
		Level:   "exploration",
		Rule: "every exported byte-consuming parse entry point of package packet (census taken with go/parser over the repository at run time; a function missing from the harness table makes the run inconclusive) is called under recover() with each input presented three ways: exact-capacity slice, sub-slice of a zero-tailed backing array, sub-slice whose spare capacity continues a valid frame. Oracle: no panic; identical results across presentations (error text, DeepEqual value, Bytes()); error => value nil / nil pointer / zero header. " +
			"Inputs: tcp-consistent = for every function-code byte 0..255 and every total length 0..300 an MBAP-consistent frame (length field = len-6) with zero/FF/PRNG/plausible bodies; rtu-shaped = same for RTU with and without valid CRC; mutate = every prefix and single-byte mutations of valid request/response frames; small = all strings of length<=4 over full alphabet at the function-code position and {0,1,3,0x7f,0x80,0xff} elsewhere; random = PRNG strings 0..400. distinct key=(entry, length, function-code byte, outcome class).",
		Assumptions: []string{"Go turns out-of-bounds reads into panics; reads inside spare capacity are detected only through differing results between presentations"},
		NewCase:     func() any { return &Case{} },
		Gen:         gen,
		Run:         run,
		SelfTest:    selfTest,
	}
}

var censusMissing []string

// selfTest takes the census of exported funcs with a leading []byte parameter and compares it with the table.
func selfTest() error {
	if err := specref.SelfTest(); err != nil {
		return err
	}
	repo := os.Getenv("VERIF_REPO_DIR")
	if repo == "" {
		repo = "/repo"
	}
	fset := token.NewFileSet()
	pkgs, err := parser.ParseDir(fset, filepath.Join(repo, "packet"), func(fi os.FileInfo) bool { return !strings.HasSuffix(fi.Name(), "_test.go") }, 0)
	if err != nil {
		return fmt.Errorf("census: %v", err)
	}
	have := map[string]bool{}
	for _, e := range entries {
		have[strings.SplitN(e.Name, "/", 2)[0]] = true
	}
	notParsers := map[string]bool{"CRC16": true, "NewRegisters": true} // byte-consuming but not parsers (covered by C03 / C04)
	var missing []string
	for _, p := range pkgs {
		for _, f := range p.Files {
			for _, d := range f.Decls {
				fd, ok := d.(*ast.FuncDecl)
				if !ok || fd.Recv != nil || !fd.Name.IsExported() || fd.Type.Params == nil || len(fd.Type.Params.List) == 0 {
					continue
				}
				at, ok := fd.Type.Params.List[0].Type.(*ast.ArrayType)
				if !ok || at.Len != nil {
					continue
				}
				if id, ok := at.Elt.(*ast.Ident); !ok || id.Name != "byte" {
					continue
				}
				if !have[fd.Name.Name] && !notParsers[fd.Name.Name] {
					missing = append(missing, fd.Name.Name)
				}
			}
		}
	}
	sort.Strings(missing)
	censusMissing = missing
	return nil
}

func gen(g *mon.Gen) {
	if len(censusMissing) > 0 {
		// reported through a dedicated case so that the run ends inconclusive, not silently smaller
		g.Emit(&Case{Kind: "census", N: len(censusMissing)})
	}
	rng := g.Rng
	for fc := 0; fc < 256; fc++ {
		stepQ := 1
		hi := 300
		if !g.Thorough() && !specref.Supported(uint8(fc)) && !specref.Supported(uint8(fc&0x7f)) {
			hi = 40 // unsupported codes: all short lengths, long ones sampled in thorough
		}
		_ = stepQ
		g.Emit(&Case{Kind: "tcp-consistent", FC: fc, Lo: 0, Hi: hi, Seed: rng.Int63()})
		g.Emit(&Case{Kind: "rtu-shaped", FC: fc, Lo: 0, Hi: hi, Seed: rng.Int63()})
	}
	// every (function, request/response, framing) shape is mutated, not a random draw of shapes
	for rep := 0; rep < g.Pick(2, 150); rep++ {
		for _, fc := range specref.FCs {
			for shape := 0; shape < 4; shape++ {
				g.Emit(&Case{Kind: "mutate", FC: int(fc), N: shape, Seed: rng.Int63()})
			}
		}
	}
	for fc := 0; fc < 256; fc++ {
		g.Emit(&Case{Kind: "small", FC: fc})
	}
	for i := 0; i < g.Pick(40, 8000); i++ {
		g.Emit(&Case{Kind: "random", Seed: rng.Int63(), N: 100})
	}
}

var numRe = regexp.MustCompile(`[0-9]+`)

func outcome(v any, err error) string {
	if err != nil {
		return "error"
	}
	return "value"
}

// present returns the three presentations of in.
func present(in []byte, tail []byte) [3][]byte {
	a := make([]byte, len(in))
	copy(a, in)
	b := make([]byte, len(in)+64)
	copy(b, in)
	c := make([]byte, len(in)+len(tail)+8)
	copy(c, in)
	copy(c[len(in):], tail)
	for i := len(in) + len(tail); i < len(c); i++ {
		c[i] = 0xA5
	}
	return [3][]byte{a[:len(in):len(in)], b[:len(in)], c[:len(in)]}
}

type result struct {
	panicked bool
	ptxt     string
	v        any
	err      error
	bytes    []byte
	bpanic   string
}

func call(e *libx.Entry, in []byte) (res result) {
	res.panicked, res.ptxt = mon.Catch(func() { res.v, res.err = e.F(in) })
	if !res.panicked && res.err == nil {
		if b, ok := res.v.(interface{ Bytes() []byte }); ok && !libx.IsNilValue(res.v) {
			if p, t := mon.Catch(func() { res.bytes = b.Bytes() }); p {
				res.bpanic = t
			}
		}
	}
	return
}

func errText(err error) string {
	if err == nil {
		return "<nil>"
	}
	txt := ""
	if p, t := mon.Catch(func() { txt = err.Error() }); p {
		txt = "Error() panics: " + numRe.ReplaceAllString(firstLine(t), "N")
	}
	if b, ok := err.(interface{ Bytes() []byte }); ok { // errors that can be sent to the client: what they encode to is part of the result
		var enc []byte
		mon.Catch(func() { enc = b.Bytes() })
		return fmt.Sprintf("%T:%s:%x", err, txt, enc)
	}
	return fmt.Sprintf("%T:%s", err, txt)
}

func firstLine(s string) string {
	if i := strings.IndexByte(s, '\n'); i >= 0 {
		return s[:i]
	}
	return s
}

func same(a, b result) string {
	if a.panicked != b.panicked {
		return "panic-vs-return"
	}
	if errText(a.err) != errText(b.err) {
		return "error-text"
	}
	if !reflect.DeepEqual(a.v, b.v) {
		return "value"
	}
	if !bytes.Equal(a.bytes, b.bytes) {
		return "bytes"
	}
	return ""
}

// probe: an input whose results are remembered and re-evaluated after many other calls (results must depend on the input only).
type probe struct {
	in   []byte
	res  []string
	errs []error  // the error VALUES handed out by the first evaluation (they must not change afterwards)
	etxt []string // what they encoded to at that time
}

func snapshot(in []byte) ([]string, []error) {
	out := make([]string, len(entries))
	errs := make([]error, len(entries))
	for i := range entries {
		ps := make([]byte, len(in))
		copy(ps, in)
		rs := call(&entries[i], ps)
		out[i] = fmt.Sprintf("%v|%s|%v|%x", rs.panicked, errText(rs.err), rs.v, rs.bytes)
		errs[i] = rs.err
	}
	return out, errs
}

func recheck(c *Case, r *mon.Rec, p *probe) {
	// (1) the error values returned earlier still say what they said
	for i := range entries {
		if p.errs[i] != nil && isSentinel(p.errs[i]) {
			continue // package-level sentinels are shared by design; their content is checked through (2)
		}
		if now := errText(p.errs[i]); now != p.etxt[i] {
			r.Violate(c, "returned-error-changed-later", mon.Attrs{"entry": entries[i].Name}, fmt.Sprintf("input % x: the error value returned by the first call read %s, after other inputs had been parsed the same value reads %s", head(p.in), p.etxt[i], now))
		}
	}
	// (2) the same input gives the same result again
	now, _ := snapshot(p.in)
	r.Eval(2 * len(entries))
	for i := range entries {
		if now[i] != p.res[i] {
			r.Violate(c, "result-depends-on-earlier-calls", mon.Attrs{"entry": entries[i].Name}, fmt.Sprintf("input % x: first result %s, after other inputs had been parsed %s", head(p.in), p.res[i], now[i]))
		}
	}
}

func isSentinel(err error) bool {
	return err == error(packet.ErrTCPDataTooShort) || err == error(packet.ErrIsNotTCPPacket) || err == packet.ErrInvalidCRC
}

type nopHandler struct{}

func (nopHandler) Handle(ctx context.Context, req packet.Request) (packet.Response, error) {
	return nil, errors.New("verif: no handler")
}

// feedAssembler lets the server-side stream assembler (listed among this property's files) see the input too: it must
// not panic on anything that does not reach the handler, and must leave the parsers' results for other inputs alone.
func feedAssembler(c *Case, r *mon.Rec, in []byte) {
	// the assembler cuts frames by what the classifier says: a classifier that accepts an input as a frame shorter than
	// the eight bytes it has just inspected (zero bytes, say) would have the assembler cut nothing off for ever
	if len(in) >= 8 {
		var n int
		var cerr error
		if p, _ := mon.Catch(func() { n, cerr = packet.LooksLikeModbusTCP(in, false) }); !p && cerr == nil && n < 8 {
			r.Violate(c, "classifier-accepts-frame-shorter-than-header", mon.Attrs{"n": n}, fmt.Sprintf("input (%d bytes) % x: LooksLikeModbusTCP returned (%d, nil)", len(in), head(in), n))
			return
		}
	}
	a := &server.ModbusTCPAssembler{Handler: nopHandler{}}
	cp := append([]byte{}, in...)
	if p, txt := mon.Catch(func() { a.ReceiveRead(context.Background(), cp, len(cp)) }); p {
		r.Violate(c, "assembler-panics", mon.Attrs{}, fmt.Sprintf("input (%d bytes) % x: %s", len(in), head(in), txt))
	}
}

// observe runs all entry points on one input.
func observe(c *Case, r *mon.Rec, in []byte, tail []byte) {
	ps := present(in, tail)
	fcb := -1
	if len(in) > 7 {
		fcb = int(in[7])
	}
	for i := range entries {
		e := &entries[i]
		r0 := call(e, ps[0])
		r.Eval(3)
		a := mon.Attrs{"entry": e.Name}
		if r0.panicked {
			a["panic"] = numRe.ReplaceAllString(r0.ptxt, "N")
			r.Violate(c, "parser-panics", a, fmt.Sprintf("input (%d bytes) % x: %s", len(in), head(in), r0.ptxt))
		} else if r0.bpanic != "" {
			a["panic"] = numRe.ReplaceAllString(r0.bpanic, "N")
			r.Violate(c, "bytes-panics-after-parse", a, fmt.Sprintf("input (%d bytes) % x accepted as %T, Bytes(): %s", len(in), head(in), r0.v, r0.bpanic))
		}
		// a nil slice is the empty byte string: same answer as for a slice of length 0
		if len(in) == 0 {
			rn := call(e, nil)
			if d := same(r0, rn); d != "" {
				r.Violate(c, "nil-slice-differs-from-empty", mon.Attrs{"entry": e.Name, "differs": d}, fmt.Sprintf("nil input gave %v / %s, a zero-length slice %v / %s", rn.v, errText(rn.err), r0.v, errText(r0.err)))
			} else if !rn.panicked && rn.err == nil && (e.Kind == "req" || e.Kind == "resp") && libx.IsNilValue(rn.v) {
				r.Violate(c, "neither-value-nor-error", mon.Attrs{"entry": e.Name}, "nil input: returned a nil value and a nil error")
			}
		}
		// an error a parser returns is a value its caller will print - and test with errors.Is / errors.As
		if r0.err != nil && !r0.panicked {
			if p, t := mon.Catch(func() {
				_ = errors.Is(r0.err, io.EOF)
				_ = errors.Is(r0.err, context.DeadlineExceeded)
				_ = errors.Is(r0.err, packet.ErrInvalidCRC)
				var pe *fs.PathError
				_ = errors.As(r0.err, &pe)
			}); p {
				r.Violate(c, "returned-error-panics", mon.Attrs{"entry": e.Name, "in": "errors.Is"}, fmt.Sprintf("input (%d bytes) % x: errors.Is / errors.As on the returned %T panics: %s", len(in), head(in), r0.err, firstLine(t)))
			}
			if p, t := mon.Catch(func() { _ = r0.err.Error() }); p {
				r.Violate(c, "returned-error-panics", mon.Attrs{"entry": e.Name}, fmt.Sprintf("input (%d bytes) % x: the returned %T panics in Error(): %s", len(in), head(in), r0.err, firstLine(t)))
			}
		}
		if !bytes.Equal(ps[0], in) {
			r.Violate(c, "parser-writes-to-input", mon.Attrs{"entry": e.Name, "where": "inside"}, fmt.Sprintf("input (%d bytes) % x reads % x after the call", len(in), head(in), head(ps[0])))
			copy(ps[0], in)
		}
		for k := 1; k < 3; k++ {
			full := ps[k][:cap(ps[k])]
			before := append([]byte{}, full...)
			rk := call(e, ps[k])
			if !bytes.Equal(full, before) {
				where := "inside"
				if bytes.Equal(full[:len(in)], before[:len(in)]) {
					where = "spare-capacity"
				}
				r.Violate(c, "parser-writes-to-input", mon.Attrs{"entry": e.Name, "where": where}, fmt.Sprintf("input (%d bytes) % x with spare capacity: after the call the caller's buffer reads % x, it was % x (the bytes behind the input are the caller's - the next frame, for one)", len(in), head(in), head(full[max(0, len(in)-4):]), head(before[max(0, len(in)-4):])))
				copy(full, before)
			}
			if d := same(r0, rk); d != "" {
				r.Violate(c, "depends-on-spare-capacity", mon.Attrs{"entry": e.Name, "differs": d}, fmt.Sprintf("input (%d bytes) % x; presentation %d (tail % x) gave %v / %s, exact-capacity gave %v / %s", len(in), head(in), k, head(tail), rk.v, errText(rk.err), r0.v, errText(r0.err)))
				break
			}
		}
		if !r0.panicked && r0.err == nil && (e.Kind == "req" || e.Kind == "resp") && libx.IsNilValue(r0.v) {
			r.Violate(c, "neither-value-nor-error", mon.Attrs{"entry": e.Name}, fmt.Sprintf("input (%d bytes) % x: returned a nil value and a nil error", len(in), head(in)))
		}
		if !r0.panicked && r0.err != nil {
			switch e.Kind {
			case "req", "resp":
				if !libx.IsNilValue(r0.v) {
					r.Violate(c, "error-with-value", mon.Attrs{"entry": e.Name}, fmt.Sprintf("input % x: error %v together with %+v", head(in), r0.err, r0.v))
				}
			case "hdr":
				if h, ok := r0.v.(packet.MBAPHeader); !ok || h != (packet.MBAPHeader{}) {
					r.Violate(c, "error-with-value", mon.Attrs{"entry": e.Name}, fmt.Sprintf("input % x: error %v together with %+v", head(in), r0.err, r0.v))
				}
			}
		}
		oc := outcome(r0.v, r0.err)
		if r0.panicked {
			oc = "panic"
		}
		r.Distinct(mon.Mix(uint64(i), uint64(len(in)), uint64(fcb+1), mon.HashS(oc)))
		if len(in)%16 == 0 {
			r.Cover("outcomes", e.Kind+"/"+oc)
		}
	}
}

func head(b []byte) []byte {
	if len(b) > 32 {
		return b[:32]
	}
	return b
}

func tailFrame(rng *rand.Rand) []byte {
	q := libx.LegalReq(rng, specref.FCs[rng.Intn(10)], 0.5)
	if rng.Intn(2) == 0 {
		return q.Encode(specref.Framing(rng.Intn(2)))
	}
	return libx.ReplyFor(rng, q).Encode(specref.Framing(rng.Intn(2)))
}

func body(rng *rand.Rand, n int, style int, fc int) []byte {
	b := make([]byte, n)
	switch style {
	case 0:
	case 1:
		for i := range b {
			b[i] = 0xFF
		}
	case 2:
		rng.Read(b)
	case 3: // plausible: small quantities, byte counts matching the remaining length at the usual offsets
		rng.Read(b)
		for _, off := range []int{0, 4, 8} { // positions where a byte count can sit after the function code
			if off < n && rng.Intn(2) == 0 {
				b[off] = byte(n - off - 1)
			}
		}
		if n >= 4 {
			b[2], b[3] = 0, byte(1+rng.Intn(120))
		}
		if n >= 8 {
			b[6], b[7] = 0, byte(1+rng.Intn(120))
		}
	}
	return b
}

var probeInputs = [][]byte{
	{0x00, 0x01, 0x00, 0x00, 0x00, 0x06, 0x01, 0x03, 0x00, 0x00, 0x00, 0x01}, // valid FC3 request
	{0x12, 0x34, 0x00, 0x00, 0x00, 0x06, 0x09, 0x00, 0x00, 0x00, 0x00, 0x01}, // function code 0
	{0x56, 0x78, 0x00, 0x01, 0x00, 0x06, 0x07, 0x03, 0x00, 0x00, 0x00, 0x01}, // protocol id 1
	{0x9a, 0xbc, 0x00, 0x00, 0x00, 0x02, 0x05, 0x03},                         // length field 2
	{0xde, 0xf0, 0x00, 0x00, 0x00, 0x06, 0x11, 0x2b, 0x00, 0x00, 0x00, 0x01}, // unsupported function 0x2b
	{0x01, 0x02, 0x00, 0x00, 0x00, 0x03, 0x21, 0x83, 0x02},                   // exception response
	{0x01, 0x83, 0x02, 0xc0, 0xf1},                                           // RTU exception
	{0x01, 0x02, 0x00, 0x00, 0x00, 0x06, 0x01, 0x03, 0x00, 0x00, 0x00, 0x00}, // quantity 0
	{0x0a, 0x0b, 0x00, 0x00, 0x00, 0x03, 0x0c, 0x03, 0x00},                   // header-consistent but too short for FC3
	{0x1a, 0x1b, 0x00, 0x00, 0x00, 0x04, 0x1c, 0x10, 0x00, 0x01},             // header-consistent but too short for FC16
}

func run(ci any, r *mon.Rec) {
	c := ci.(*Case)
	rng := rand.New(rand.NewSource(c.Seed))
	// history independence: the probes are evaluated before and after everything this case parses
	var probes []*probe
	if c.Kind != "census" {
		for _, in := range probeInputs {
			res, errs := snapshot(in)
			pr := &probe{in: in, res: res, errs: errs, etxt: make([]string, len(errs))}
			for i, e := range errs {
				pr.etxt[i] = errText(e)
			}
			probes = append(probes, pr)
		}
		defer func() {
			for _, p := range probes {
				recheck(c, r, p)
			}
		}()
	}
	switch c.Kind {
	case "census":
		r.Inconclusive("exported byte-consuming functions missing from the harness table: " + strings.Join(censusMissing, ","))
	case "tcp-consistent":
		for l := c.Lo; l <= c.Hi; l++ {
			for style := 0; style < 4; style++ {
				in := make([]byte, l)
				if l >= 8 {
					copy(in[8:], body(rng, l-8, style, c.FC))
				}
				if l > 0 {
					t := libx.U16(rng)
					if l > 1 {
						in[0], in[1] = byte(t>>8), byte(t)
					}
				}
				if l >= 6 {
					n := l - 6
					in[4], in[5] = byte(n>>8), byte(n)
				}
				if l >= 7 {
					in[6] = libx.U8(rng)
				}
				if l >= 8 {
					in[7] = byte(c.FC)
				}
				observe(c, r, in, tailFrame(rng))
			}
		}
		if c.FC%32 == 3 {
			r.Sample(c)
		}
	case "rtu-shaped":
		for l := c.Lo; l <= c.Hi; l++ {
			for style := 0; style < 4; style++ {
				in := make([]byte, l)
				if l >= 2 {
					copy(in[2:], body(rng, l-2, style, c.FC))
					in[0], in[1] = libx.U8(rng), byte(c.FC)
				}
				if l >= 4 && rng.Intn(2) == 0 {
					crc := specref.CRC(in[:l-2])
					in[l-2], in[l-1] = byte(crc), byte(crc>>8)
				}
				observe(c, r, in, tailFrame(rng))
			}
		}
	case "mutate":
		q := libx.LegalReq(rng, uint8(c.FC), []float64{0, 0.5, 0.5, 1}[rng.Intn(4)])
		var base []byte
		if c.N < 2 {
			base = q.Encode(specref.Framing(c.N))
		} else {
			base = libx.ReplyFor(rng, q).Encode(specref.Framing(c.N - 2))
		}
		for k := 0; k <= len(base); k++ {
			observe(c, r, base[:k], base[k:]) // the tail continues the very same frame: the most tempting stale data
		}
		for k := 0; k < len(base) && k < 24; k++ {
			for _, v := range []byte{0, 1, 0x7f, 0x80, 0xff, base[k] + 1, base[k] ^ 0x80} {
				m := append([]byte{}, base...)
				m[k] = v
				observe(c, r, m, tailFrame(rng))
			}
		}
		for i := 0; i < 10; i++ {
			m := append([]byte{}, base...)
			m[rng.Intn(len(m))] = byte(rng.Intn(256))
			observe(c, r, m, nil)
		}
		// truncations of a valid TCP frame with the MBAP length field corrected (internally consistent but short), and
		// RTU truncations with a recomputed CRC
		if len(base) >= 9 && base[2] == 0 && base[3] == 0 && int(base[4])<<8|int(base[5]) == len(base)-6 {
			for k := 7; k < len(base); k++ {
				m := append([]byte{}, base[:k]...)
				m[4], m[5] = byte((k-6)>>8), byte(k-6)
				observe(c, r, m, base[k:])
			}
		} else if len(base) >= 5 {
			for k := 3; k < len(base)-1; k++ {
				m := append([]byte{}, base[:k]...)
				crc := specref.CRC(m[:k-2])
				if k >= 4 {
					m[k-2], m[k-1] = byte(crc), byte(crc>>8)
				}
				observe(c, r, m, base[k:])
			}
		}
	case "small":
		alpha := []byte{0, 1, 3, 0x7f, 0x80, 0xff}
		fc := byte(c.FC)
		observe(c, r, nil, []byte{1, 2, 3})
		// RTU shape: function code at index 1; TCP needs >=8 bytes so is covered by tcp-consistent
		for _, a0 := range alpha {
			observe(c, r, []byte{fc}, nil)
			observe(c, r, []byte{a0, fc}, nil)
			for _, a2 := range alpha {
				observe(c, r, []byte{a0, fc, a2}, nil)
				for _, a3 := range alpha {
					observe(c, r, []byte{a0, fc, a2, a3}, []byte{0, 0, 0, 6})
				}
			}
		}
	case "random":
		for i := 0; i < c.N; i++ {
			l := rng.Intn(401)
			if rng.Intn(3) == 0 {
				l = rng.Intn(20)
			}
			in := libx.RandBytes(rng, l)
			if l >= 6 && rng.Intn(2) == 0 { // make the MBAP plausible so the parsers get past their first guard
				in[2], in[3] = 0, 0
				n := l - 6
				in[4], in[5] = byte(n>>8), byte(n)
			}
			observe(c, r, in, tailFrame(rng))
			feedAssembler(c, r, in)
		}
	}
}

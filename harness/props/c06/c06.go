// Package c06: batched requests cover every field, stay within limits and never mix targets.
package c06

import (
	"fmt"
	"math/rand"
	"sort"

	modbus "github.com/aldas/go-modbus-client"
	"github.com/aldas/go-modbus-client/packet"
	"verif/fieldgen"
	"verif/mon"
	"verif/specref"
)

type Case struct {
	Kind   string `json:"kind"` // lattice | random
	Target int    `json:"target"`
	I      int    `json:"i,omitempty"`
	Deep   bool   `json:"deep,omitempty"`
	Seed   int64  `json:"seed"`
	N      int    `json:"n,omitempty"`
}

// Targets: the eight split targets.
type target struct {
	name  string
	fc    uint8
	fr    specref.Framing
	coils bool
	limit int
	call  func(b *modbus.Builder) ([]modbus.BuilderRequest, error)
}

var Targets = []target{
	{"ReadCoilsTCP", 1, specref.TCP, true, 2000, (*modbus.Builder).ReadCoilsTCP},
	{"ReadCoilsRTU", 1, specref.RTU, true, 2000, (*modbus.Builder).ReadCoilsRTU},
	{"ReadDiscreteInputsTCP", 2, specref.TCP, true, 2000, (*modbus.Builder).ReadDiscreteInputsTCP},
	{"ReadDiscreteInputsRTU", 2, specref.RTU, true, 2000, (*modbus.Builder).ReadDiscreteInputsRTU},
	{"ReadHoldingRegistersTCP", 3, specref.TCP, false, 125, (*modbus.Builder).ReadHoldingRegistersTCP},
	{"ReadHoldingRegistersRTU", 3, specref.RTU, false, 125, (*modbus.Builder).ReadHoldingRegistersRTU},
	{"ReadInputRegistersTCP", 4, specref.TCP, false, 125, (*modbus.Builder).ReadInputRegistersTCP},
	{"ReadInputRegistersRTU", 4, specref.RTU, false, 125, (*modbus.Builder).ReadInputRegistersRTU},
}

// Accessors for other checks.
func (t target) FC() uint8                                               { return t.fc }
func (t target) Framing() specref.Framing                                { return t.fr }
func (t target) Name() string                                            { return t.name }
func (t target) Call(b *modbus.Builder) ([]modbus.BuilderRequest, error) { return t.call(b) }

var latticeAddrs []int

type proto struct {
	typ modbus.FieldType
	len uint8
}

var regProtos = []proto{{modbus.FieldTypeUint16, 0}, {modbus.FieldTypeFloat32, 0}, {modbus.FieldTypeInt64, 0}, {modbus.FieldTypeString, 3}, {modbus.FieldTypeString, 250}, {modbus.FieldTypeString, 255}, {modbus.FieldTypeCoil, 0}}
var coilProtos = []proto{{modbus.FieldTypeCoil, 0}, {modbus.FieldTypeUint16, 0}}

func init() {
	latticeAddrs = []int{0, 1, 2, 3}
	for a := 120; a <= 130; a++ {
		latticeAddrs = append(latticeAddrs, a)
	}
	for a := 1995; a <= 2005; a++ {
		latticeAddrs = append(latticeAddrs, a)
	}
	for a := 65408; a <= 65412; a++ {
		latticeAddrs = append(latticeAddrs, a)
	}
	for a := 65530; a <= 65535; a++ {
		latticeAddrs = append(latticeAddrs, a)
	}
}

func Spec() *mon.Spec {
	return &mon.Spec{
		ID:      "C06",
		RuleAdd: "Later additions (rounds 4-17): five ways of handing the list to the builder (AddAll, Add, mixed with the caller reusing its slice, two builders from one slice, build-AddAll-build), a build for another target first, multiset counts, a blank definition somewhere in the list.",
		Level:   "exploration",
		Rule: "every call Builder.Read{Coils,DiscreteInputs,HoldingRegisters,InputRegisters}{TCP,RTU}() is observed; oracle over the valid fields of the requested kind in integer arithmetic: error, or (a) each field in exactly one request, (b) same server and unit, (c) span inside [start,start+qty), (d) window tight, (e) 1<=qty<=125/2000, (f) reference decoder of Bytes() gives the descriptor's unit/start/quantity, right function and framing, (g) no empty request, (h) a group whose total span fits the limit is one request, (i) no field of the other kind. " +
			"lattice: small-scope exhaustive - all multisets of <=2 (quick) / <=3 (thorough) fields over addresses {0..3,120..130,1995..2005,65408..65412,65530..65535} x sizes {1,2,4 registers, strings of 3/250/255 bytes, coil}; random: PRNG lists of 0..300 fields with clusters at limit-1/limit/limit+1, duplicates, overlaps, hostile server/unit names (prefix pairs), invalid definitions. distinct key = hash(sorted fields, target).",
		Assumptions: []string{"field span = documented register size of its type (string: ceil(len/2)); windows may numerically extend past 65535 (the constructors allow it); 'returns an error' is always permitted, non-error outcomes are counted separately"},
		NewCase:     func() any { return &Case{} },
		Gen:         gen,
		Run:         run,
		Exhaustive:  true,
	}
}

func protosFor(t target) []proto {
	if t.coils {
		return coilProtos
	}
	return regProtos
}

func gen(g *mon.Gen) {
	rng := g.Rng
	for ti, t := range Targets {
		n := len(latticeAddrs) * len(protosFor(t))
		for i := 0; i < n; i++ {
			g.Emit(&Case{Kind: "lattice", Target: ti, I: i, Deep: g.Thorough(), Seed: rng.Int63()})
		}
		for k := 0; k < g.Pick(6000, 60000); k++ {
			g.Emit(&Case{Kind: "random", Target: ti, Seed: rng.Int63()})
		}
	}
}

func latticeField(t target, idx int, name string) modbus.Field {
	ps := protosFor(t)
	p := ps[idx%len(ps)]
	a := latticeAddrs[idx/len(ps)]
	return modbus.Field{Name: name, ServerAddress: "dev:502", UnitID: 1, Address: uint16(a), Type: p.typ, Length: p.len}
}

func run(ci any, r *mon.Rec) {
	c := ci.(*Case)
	t := Targets[c.Target]
	switch c.Kind {
	case "lattice":
		n := len(latticeAddrs) * len(protosFor(t))
		f0 := latticeField(t, c.I, "a")
		observe(c, r, t, modbus.Fields{f0})
		for j := c.I; j < n; j++ {
			f1 := latticeField(t, j, "b")
			observe(c, r, t, modbus.Fields{f0, f1})
			observe(c, r, t, modbus.Fields{f1, f0})
			if c.Deep {
				for k := j; k < n; k++ {
					f2 := latticeField(t, k, "c")
					observe(c, r, t, modbus.Fields{f1, f2, f0})
				}
			}
		}
		if !c.Deep { // sampled triples in quick
			rng := rand.New(rand.NewSource(c.Seed))
			for s := 0; s < 60; s++ {
				observe(c, r, t, modbus.Fields{f0, latticeField(t, rng.Intn(n), "b"), latticeField(t, rng.Intn(n), "c")})
			}
		}
	case "random":
		rng := rand.New(rand.NewSource(c.Seed))
		n := []int{0, 1, 2, 3, 5, 10, 40, 300}[rng.Intn(8)]
		if n > 3 {
			n = 1 + rng.Intn(n)
		}
		typeSel := 0
		if t.coils {
			typeSel = 1
		}
		if rng.Intn(3) == 0 {
			typeSel = 2
		}
		fields := fieldgen.List(rng, n, typeSel, 1+rng.Intn(3), 1+rng.Intn(3), t.limit)
		if n > 0 && rng.Intn(6) == 0 {
			k := rng.Intn(n)
			fields[k] = fieldgen.Invalidate(rng, fields[k])
		}
		observe(c, r, t, fields)
		if n <= 3 {
			r.Sample(map[string]any{"target": t.name, "fields": fields})
		}
	}
}

type span struct{ lo, hi int } // [lo,hi)

func quantityOf(req packet.Request) (int, bool) {
	switch q := req.(type) {
	case *packet.ReadCoilsRequestTCP:
		return int(q.Quantity), true
	case *packet.ReadCoilsRequestRTU:
		return int(q.Quantity), true
	case *packet.ReadDiscreteInputsRequestTCP:
		return int(q.Quantity), true
	case *packet.ReadDiscreteInputsRequestRTU:
		return int(q.Quantity), true
	case *packet.ReadHoldingRegistersRequestTCP:
		return int(q.Quantity), true
	case *packet.ReadHoldingRegistersRequestRTU:
		return int(q.Quantity), true
	case *packet.ReadInputRegistersRequestTCP:
		return int(q.Quantity), true
	case *packet.ReadInputRegistersRequestRTU:
		return int(q.Quantity), true
	}
	return 0, false
}

func hashFields(fs modbus.Fields, ti int) uint64 {
	keys := make([]string, len(fs))
	for i, f := range fs {
		keys[i] = fmt.Sprintf("%s|%d|%d|%d|%d", f.ServerAddress, f.UnitID, f.Address, f.Type, f.Length)
	}
	sort.Strings(keys)
	h := uint64(ti)
	for _, k := range keys {
		h = mon.Mix(h, mon.HashS(k))
	}
	return h
}

// build hands the fields to a builder in one of several ways a caller may use (all give the builder the same logical list).
func build(fields modbus.Fields, usage int, sel uint64) *modbus.Builder {
	b := fieldgen.NewBuilder(sel)
	switch usage {
	default: // one AddAll with an exactly sized copy
		b.AddAll(append(modbus.Fields{}, fields...))
	case 1: // field by field
		for _, f := range fields {
			b.Add(&modbus.BField{Field: f})
		}
	case 2: // AddAll from a slice with spare capacity, then Add; afterwards the caller keeps using ITS slice
		k := len(fields) / 2
		mine := make(modbus.Fields, k, k+8)
		copy(mine, fields[:k])
		b.AddAll(mine)
		for _, f := range fields[k:] {
			b.Add(&modbus.BField{Field: f})
		}
		// the caller's own later appends / edits must not reach into the builder
		mine = append(mine, modbus.Field{Name: "foreign", ServerAddress: "other:1", UnitID: 9, Address: 7, Type: modbus.FieldTypeUint16})
		if len(mine) > 0 {
			mine[0].Address ^= 0x0100
		}
	case 4: // the plan is asked for early, then more fields arrive in bulk: the next plan has them all
		k := len(fields) / 2
		b.AddAll(append(modbus.Fields{}, fields[:k]...))
		for _, t := range Targets {
			mon.Catch(func() { _, _ = t.call(b) })
		}
		b.AddAll(append(modbus.Fields{}, fields[k:]...))
	case 3: // two builders seeded from the same slice
		src := make(modbus.Fields, len(fields), len(fields)+8)
		copy(src, fields)
		b.AddAll(src)
		other := modbus.NewRequestBuilder("", 0)
		other.AddAll(src)
		other.Add(&modbus.BField{Field: modbus.Field{Name: "foreign", ServerAddress: "other:1", UnitID: 9, Address: 7, Type: modbus.FieldTypeUint16}})
	}
	return b
}

func observe(c *Case, r *mon.Rec, t target, fields modbus.Fields) {
	r.Eval(1)
	usage := 0
	if c.Kind == "random" {
		usage = int(uint64(c.Seed) % 5)
	}
	blank := c.Kind == "random" && (uint64(c.Seed)>>9)%16 == 0 && !t.coils
	if blank {
		// a blank definition (the zero value: a row a configuration loader left empty) somewhere in the list: it is a
		// field like any other - the builder reports it (an error) or plans it, it does not make it disappear
		at := int((uint64(c.Seed) >> 13) % uint64(len(fields)+1))
		fields = append(append(append(modbus.Fields{}, fields[:at]...), modbus.Field{}), fields[at:]...)
		r.Cover("usage", "blank-definition-in-the-list")
	}
	b := build(fields, usage, uint64(c.Seed)>>3)
	if c.Kind == "random" && (uint64(c.Seed)>>5)%3 == 0 {
		// the same builder has already been asked for another kind of requests (an application polling coils and
		// registers builds both from one builder): what it returns now does not depend on that
		other := Targets[(c.Target+1+int(uint64(c.Seed)>>7)%(len(Targets)-1))%len(Targets)]
		mon.Catch(func() { _, _ = other.call(b) })
		r.Cover("usage", "second-build-on-the-same-builder")
	}
	var reqs []modbus.BuilderRequest
	var err error
	if p, txt := mon.Catch(func() { reqs, err = t.call(b) }); p {
		r.Violate(c, "builder-panics", mon.Attrs{"target": t.name}, fmt.Sprintf("fields %+v: %s", fields, txt))
		return
	}
	r.Distinct(hashFields(fields, c.Target))
	if err != nil {
		r.Cover("outcome", "error")
		if reqs != nil {
			r.Violate(c, "error-with-requests", mon.Attrs{"target": t.name}, fmt.Sprintf("%v and %d requests", err, len(reqs)))
		}
		return
	}
	r.Cover("outcome", "requests")
	if blank {
		found := false
		for _, rq := range reqs {
			for _, f := range rq.Fields {
				found = found || f == (modbus.Field{})
			}
		}
		if !found {
			r.Violate(c, "field-missing", mon.Attrs{"kind_coils": t.coils, "blank_definition": true}, fmt.Sprintf("target %s: the list contained a blank definition (Field{}); the builder returned %d requests and no error, the blank definition is in none of them", t.name, len(reqs)))
		}
		return
	}
	V := func(kind string, a mon.Attrs, detail string) {
		a["kind_coils"] = t.coils
		r.Violate(c, kind, a, fmt.Sprintf("target %s fields %s: %s", t.name, brief(fields), detail))
	}
	// relevant fields
	want := map[string]modbus.Field{}
	mult := map[string]int{} // how often the very same definition was given (a multiset: each occurrence is a field of its own)
	for _, f := range fields {
		if fieldgen.Valid(f) && fieldgen.IsCoil(f) == t.coils {
			want[f.Name] = f
			mult[f.Name]++
		}
	}
	seen := map[string]int{}
	type grp struct {
		server string
		unit   uint8
	}
	groupReqs := map[grp]int{}
	for qi, rq := range reqs {
		if len(rq.Fields) == 0 {
			V("empty-request", mon.Attrs{}, fmt.Sprintf("request %d has no fields", qi))
		}
		if rq.Request == nil {
			V("nil-packet", mon.Attrs{}, fmt.Sprintf("request %d", qi))
			continue
		}
		wire := rq.Bytes()
		dq, derr := specref.DecodeReq(t.fr, wire)
		if derr != nil {
			V("packet-undecodable", mon.Attrs{}, fmt.Sprintf("request %d bytes % x: %v", qi, wire, derr))
			continue
		}
		qty := int(dq.Qty)
		start := int(rq.StartAddress)
		if dq.FC != t.fc {
			V("wrong-function", mon.Attrs{"got": int(dq.FC)}, fmt.Sprintf("request %d", qi))
		}
		if dq.Unit != rq.UnitID || int(dq.Addr) != start {
			V("packet-differs-from-descriptor", mon.Attrs{"what": "unit/start"}, fmt.Sprintf("request %d: packet unit %d start %d, descriptor unit %d start %d", qi, dq.Unit, dq.Addr, rq.UnitID, start))
		}
		if sq, ok := quantityOf(rq.Request); !ok || sq != qty {
			V("packet-differs-from-descriptor", mon.Attrs{"what": "quantity"}, fmt.Sprintf("request %d: packet quantity %d, request value %T quantity %d", qi, qty, rq.Request, sq))
		}
		if qty < 1 || qty > t.limit {
			V("quantity-out-of-limit", mon.Attrs{}, fmt.Sprintf("request %d start %d quantity %d", qi, start, qty))
		}
		groupReqs[grp{rq.ServerAddress, rq.UnitID}]++
		lo, hi := 1<<30, -1
		for _, f := range rq.Fields {
			seen[f.Name]++
			wf, ok := want[f.Name]
			if !ok {
				if fieldgen.IsCoil(f) != t.coils {
					V("other-kind-field", mon.Attrs{}, fmt.Sprintf("request %d carries %+v", qi, f))
				} else {
					V("unknown-field", mon.Attrs{}, fmt.Sprintf("request %d carries %+v which was not given (or is invalid)", qi, f))
				}
				continue
			}
			if wf != f {
				V("field-definition-changed", mon.Attrs{}, fmt.Sprintf("given %+v, request carries %+v", wf, f))
			}
			if f.ServerAddress != rq.ServerAddress || f.UnitID != rq.UnitID {
				V("wrong-target", mon.Attrs{"what": map[bool]string{true: "server", false: "unit"}[f.ServerAddress != rq.ServerAddress]},
					fmt.Sprintf("field %s (%s unit %d) is in request %d for %s unit %d", f.Name, f.ServerAddress, f.UnitID, qi, rq.ServerAddress, rq.UnitID))
			}
			s := span{int(f.Address), int(f.Address) + fieldgen.RegSize(f)}
			if s.lo < start || s.hi > start+qty {
				a := mon.Attrs{"start0": start == 0, "ends_65536": s.hi == 65536}
				V("span-outside-window", a, fmt.Sprintf("field %s span [%d,%d) not inside request %d window [%d,%d)", f.Name, s.lo, s.hi, qi, start, start+qty))
			}
			if s.lo < lo {
				lo = s.lo
			}
			if s.hi > hi {
				hi = s.hi
			}
		}
		if hi >= 0 && (lo != start || hi != start+qty) {
			V("window-not-tight", mon.Attrs{"start0": start == 0}, fmt.Sprintf("request %d window [%d,%d) but its fields span [%d,%d)", qi, start, start+qty, lo, hi))
		}
	}
	for name, f := range want {
		switch n := seen[name]; {
		case n < mult[name]:
			V("field-missing", mon.Attrs{}, fmt.Sprintf("field %+v given %d time(s), found %d time(s) in the requests (%d requests)", f, mult[name], n, len(reqs)))
		case n > mult[name]:
			V("field-duplicated", mon.Attrs{}, fmt.Sprintf("field %+v given %d time(s), found %d times in the requests", f, mult[name], n))
		}
	}
	// (h) groups that fit the limit must be one request
	type ext struct{ lo, hi int }
	g := map[grp]*ext{}
	for _, f := range want {
		k := grp{f.ServerAddress, f.UnitID}
		s := span{int(f.Address), int(f.Address) + fieldgen.RegSize(f)}
		e := g[k]
		if e == nil {
			g[k] = &ext{s.lo, s.hi}
			continue
		}
		if s.lo < e.lo {
			e.lo = s.lo
		}
		if s.hi > e.hi {
			e.hi = s.hi
		}
	}
	for k, e := range g {
		if e.hi-e.lo <= t.limit && groupReqs[k] > 1 {
			V("needless-split", mon.Attrs{}, fmt.Sprintf("group %s/%d spans [%d,%d) (<= %d) but got %d requests", k.server, k.unit, e.lo, e.hi, t.limit, groupReqs[k]))
		}
		if groupReqs[k] == 0 {
			V("group-without-request", mon.Attrs{}, fmt.Sprintf("group %s/%d has valid fields but no request", k.server, k.unit))
		}
	}
}

func brief(fs modbus.Fields) string {
	if len(fs) > 6 {
		return fmt.Sprintf("%+v ... (%d fields)", fs[:6], len(fs))
	}
	return fmt.Sprintf("%+v", fs)
}

// Package c12: over RTU, a bad-CRC reply is never surfaced as data or as a device exception.
package c12

import (
	"errors"
	"fmt"
	"math/rand"
	"time"

	"github.com/aldas/go-modbus-client/packet"
	"verif/clientx"
	"verif/libx"
	"verif/mon"
	"verif/props/c07"
	"verif/specref"
	"verif/xport"
)

type Case struct {
	Client int    `json:"client"` // 1 rtu-net, 2 serial
	FC     uint8  `json:"fc"`
	Size   int    `json:"size"`
	Exc    bool   `json:"exc"`
	Kind   string `json:"kind"` // bitflip | subst | multi | trunc | extend
	Seed   int64  `json:"seed"`
	Dense  bool   `json:"dense"`
}

func Spec() *mon.Spec {
	return &mon.Spec{
		ID:      "C12",
		RuleAdd: "Later additions (rounds 4-17): constructor variants; extension at the front (junk, the request itself) and by whole frames at the back; a second exchange after a good one; serial ports with Flush; a call without any error is a violation; a damaged reply cut off by the client's own receive buffer is not a consistent prefix.",
		Level:   "fault_enumeration",
		Rule: "RTU-over-network client and serial client; for each of the 10 reply shapes (3 sizes) and exception replies the reference-encoded reply is corrupted before delivery: every single-bit flip, every single-byte substitution (all 255 values for replies <= 24 bytes, PRNG positions/values otherwise), PRNG double/triple corruptions incl. swapped CRC bytes and CRC of a different message, every truncation, extension by 1..4 bytes. Precondition checked per case: the last two bytes differ from the reference CRC of the rest. Each corrupted reply is delivered whole, cut at 5 bytes (the length the early exception shortcut inspects) and at a PRNG cut. " +
			"Oracle: Do returns a nil response and an error in which errors.As finds neither *ErrorResponseRTU nor *ErrorResponseTCP. distinct key=(client, fc, corruption kind, position, value class, boundary).",
		Assumptions: []string{"serial client cases are sampled more thinly in quick (30 ms sleep per call)"},
		NewCase:     func() any { return &Case{} },
		Gen:         gen,
		Run:         run,
		SelfTest:    specref.SelfTest,
	}
}

func gen(g *mon.Gen) {
	rng := g.Rng
	for client := 1; client <= 2; client++ {
		for _, fc := range specref.FCs {
			for _, exc := range []bool{false, true} {
				sizes := []int{0, 1, 2}
				if exc || fc == 5 || fc == 6 || fc == 15 || fc == 16 {
					sizes = []int{0}
				}
				for _, size := range sizes {
					for _, kind := range []string{"bitflip", "subst", "multi", "trunc", "extend"} {
						g.Emit(&Case{Client: client, FC: fc, Size: size, Exc: exc, Kind: kind, Seed: rng.Int63(), Dense: g.Thorough() || client == 1})
					}
				}
			}
		}
	}
}

func run(ci any, r *mon.Rec) {
	c := ci.(*Case)
	if clientx.TooManyHangs() {
		r.NoteAdd("cases_skipped_after_3_hangs", 1)
		return
	}
	rng := rand.New(rand.NewSource(c.Seed))
	req, _, reply, err := c07.Build(rng, c.Client, c.FC, c.Size, c.Exc)
	if err != nil {
		r.Violate(c, "constructor-refuses-legal", mon.Attrs{"fc": int(c.FC)}, err.Error())
		return
	}
	L := len(reply)
	budget := 400
	if !c.Dense {
		budget = 30
	}
	if !r.Thorough() {
		budget /= 2
	}
	try := func(bad []byte, what string, pos int) {
		if len(bad) < 1 {
			return
		}
		if !c.Dense && pos > 2 && rng.Intn(8) != 0 {
			return // serial client in quick: 38 ms per call, keep every case near the header and 1/8 of the rest
		}
		if len(bad) >= 3 {
			w := specref.CRC(bad[:len(bad)-2])
			if bad[len(bad)-2] == byte(w) && bad[len(bad)-1] == byte(w>>8) {
				r.Cover("skipped", "corruption-left-crc-consistent")
				return
			}
		}
		deliveries := [][]int{nil, {5}, {1 + rng.Intn(max(1, len(bad)-1))}}
		if len(bad) > 8 && rng.Intn(2) == 0 {
			deliveries = append(deliveries, []int{3, 5})
		}
		if len(bad) == len(reply) && (pos%5 == 0 || what == "multi") && (c.Dense || pos < 6) {
			judgeAfterGood(c, r, req, reply, bad, what, pos)
		}
		for di, cuts := range deliveries {
			if !c.Dense && di == 2 && rng.Intn(2) == 0 {
				continue
			}
			judge(c, r, req, bad, cuts, what, pos)
		}
	}
	switch c.Kind {
	case "bitflip":
		n := 0
		for i := 0; i < L; i++ {
			for b := 0; b < 8; b++ {
				if L*8 > budget && !(i < 3 || i >= L-2) && rng.Intn(L*8) > budget {
					continue
				}
				bad := append([]byte{}, reply...)
				bad[i] ^= 1 << uint(b)
				try(bad, "bitflip", i)
				n++
			}
		}
	case "subst":
		for i := 0; i < L; i++ {
			if L > 24 && !(i < 3 || i >= L-2) && rng.Intn(L) > 12 {
				continue
			}
			vals := 255
			if L > 24 || !c.Dense || (!r.Thorough() && i > 2 && i < L-2) {
				vals = 12
			}
			for k := 0; k < vals; k++ {
				v := byte(k)
				if vals != 255 {
					v = []byte{0, 1, 0x80, 0x81, 0x83, 0xff, reply[i] | 0x80, reply[i] &^ 0x80, byte(rng.Intn(256)), byte(rng.Intn(256)), reply[i] + 1, reply[i] - 1}[k]
				}
				if v == reply[i] {
					continue
				}
				bad := append([]byte{}, reply...)
				bad[i] = v
				try(bad, "subst", i)
			}
		}
	case "multi":
		// swapped CRC bytes
		if reply[L-1] != reply[L-2] {
			bad := append([]byte{}, reply...)
			bad[L-1], bad[L-2] = bad[L-2], bad[L-1]
			try(bad, "crc-swapped", L-2)
		}
		// CRC of a different (valid) message pasted on
		other := libx.RandBytes(rng, L-2)
		oc := specref.CRC(other)
		bad := append([]byte{}, reply...)
		bad[L-2], bad[L-1] = byte(oc), byte(oc>>8)
		try(bad, "foreign-crc", L-2)
		// zero / ff trailers
		for _, t := range []byte{0, 0xff} {
			bad := append([]byte{}, reply...)
			bad[L-2], bad[L-1] = t, t
			try(bad, "const-crc", L-2)
		}
		for i := 0; i < budget/4; i++ {
			bad := append([]byte{}, reply...)
			for k := 0; k < 2+rng.Intn(2); k++ {
				p := rng.Intn(L)
				bad[p] = byte(rng.Intn(256))
				if rng.Intn(3) == 0 {
					bad[1] |= 0x80 // make it look like an exception
				}
			}
			try(bad, "multi", 0)
		}
	case "trunc":
		for k := 1; k < L; k++ {
			try(append([]byte{}, reply[:k]...), "trunc", k)
		}
	case "extend":
		for k := 1; k <= 4; k++ {
			for rep := 0; rep < 3; rep++ {
				try(append(append([]byte{}, reply...), libx.RandBytes(rng, k)...), "extend", k)
			}
		}
		// ... and extended at the front: a stray byte or two (line noise, a leftover of the previous exchange) before an
		// otherwise intact frame
		for _, pre := range [][]byte{{0x00}, {0xFF}, {reply[0]}, {byte(rng.Intn(256))}, {0x00, 0x00}, libx.RandBytes(rng, 2)} {
			try(append(append([]byte{}, pre...), reply...), "extend-front", len(pre))
		}
		// ... by a whole frame: the bytes of the request itself in front (a 2-wire adapter echoing what was sent), and a
		// second, self-consistent frame behind the reply (an exception frame, a copy of the reply)
		reqBytes := req.Bytes()
		try(append(append([]byte{}, reqBytes...), reply...), "extend-front", len(reqBytes))
		exc := specref.Resp{FC: c.FC, Unit: reply[0], Exception: true, ExCode: 2}.Encode(specref.RTU)
		try(append(append([]byte{}, reply...), exc...), "extend", len(exc))
		try(append(append([]byte{}, reply...), reply...), "extend", len(reply))
	}
	r.Cover("kind", c.Kind)
	if c.Size == 0 && c.Kind == "bitflip" {
		r.Sample(map[string]any{"client": clientx.KindName(c.Client), "fc": c.FC, "exception": c.Exc, "reply": fmt.Sprintf("% x", reply[:min(L, 16)]), "kind": c.Kind})
	}
}

// judgeAfterGood: the same client first receives the intact reply (must succeed), then the corrupted one.
func judgeAfterGood(c *Case, r *mon.Rec, req packet.Request, good, bad []byte, what string, pos int) {
	rt := 60 * time.Millisecond
	sess := clientx.NewSession(c.Client, clientx.Options{ReadTimeout: rt, Ctor: int(uint64(c.Seed) % 4), Flusher: uint64(c.Seed)%8 >= 4})
	o1 := sess.Do(req, xport.Script{Reply: good, Steps: xport.Cuts(len(good), nil, 0), Tail: "eof"})
	if o1.Err != nil || o1.Hung || o1.Panic != "" {
		return // intact reply not accepted (expected-length known findings): nothing to compare against
	}
	tail := "deadline"
	if c.Client == clientx.RTUNet {
		tail = "eof"
	}
	out := sess.Do(req, xport.Script{Reply: bad, Steps: xport.Cuts(len(bad), nil, 0), Tail: tail})
	r.Eval(1)
	r.Distinct(mon.Mix(0x5E55, uint64(c.Client), uint64(c.FC), mon.HashS(what), uint64(pos)))
	a := mon.Attrs{"client": clientx.KindName(c.Client), "after_good_exchange": true}
	ctx := fmt.Sprintf("%s client fc%d, second exchange on a client that had just accepted the intact reply: corrupted reply (%s at %d) % x", clientx.KindName(c.Client), c.FC, what, pos, head(bad))
	if out.Hung || out.Panic != "" {
		r.Violate(c, "do-panics", a, ctx+": "+out.Panic)
		return
	}
	if out.Err == nil {
		a["what"] = what
		if libx.IsNilValue(out.Resp) {
			r.Violate(c, "bad-crc-without-error", a, fmt.Sprintf("%s: returned no error at all (and a nil response)", ctx))
			return
		}
		r.Violate(c, "bad-crc-as-data", a, fmt.Sprintf("%s: returned %T % x as a successful response", ctx, out.Resp, head(out.Resp.Bytes())))
		return
	}
	var er *packet.ErrorResponseRTU
	if errors.As(out.Err, &er) {
		a["what"] = what
		r.Violate(c, "bad-crc-as-exception", a, fmt.Sprintf("%s: returned device exception %v", ctx, out.Err))
	}
}

func judge(c *Case, r *mon.Rec, req packet.Request, bad []byte, cuts []int, what string, pos int) {
	// short timeouts: a premature timeout can only turn a case into "error returned" (held), never into an alarm
	rt := 4 * time.Millisecond
	if c.Client == clientx.Serial {
		rt = 8 * time.Millisecond
	}
	// after the (corrupted) bytes the line goes quiet, then closes: the client must come back with an error either way
	s := xport.Script{Reply: bad, Steps: xport.Cuts(len(bad), cuts, 1), Tail: "deadline"}
	if c.Client == clientx.RTUNet && (len(cuts) == 0 || pos%4 != 0) {
		s.Tail = "eof" // stream closes after the corrupted bytes: the network client returns at once instead of waiting for its timeout
	}
	out := clientx.Run(c.Client, req, s, clientx.Options{ReadTimeout: rt, Ctor: int(uint64(c.Seed) % 4), Flusher: uint64(c.Seed)%8 >= 4}) // constructor variants: config that spells out the RTU parse / exception functions
	r.Eval(1)
	r.Cover("calls", clientx.KindName(c.Client)+"/"+c.Kind)
	a := mon.Attrs{"client": clientx.KindName(c.Client)}
	ctx := fmt.Sprintf("%s client fc%d: corrupted reply (%s at %d) % x delivered with cuts %v", clientx.KindName(c.Client), c.FC, what, pos, head(bad), cuts)
	bcls := 0
	if len(cuts) > 0 && cuts[0] == 5 {
		bcls = 1
	}
	r.Distinct(mon.Mix(uint64(c.Client), uint64(c.FC), mon.HashS(what), uint64(pos), uint64(len(bad)), uint64(bcls), b2u(c.Exc)))
	if out.Hung {
		r.Violate(c, "hang", a, ctx+"\n"+out.Stacks)
		return
	}
	if out.Panic != "" {
		r.Violate(c, "do-panics", a, ctx+": "+out.Panic)
		return
	}
	// what the client actually consumed: if that prefix is itself a CRC-consistent frame (e.g. a valid reply followed by
	// line noise that arrives in a later read), returning it is not a bad-CRC reply
	seen := bad[:min(out.Conn.Delivered(), len(bad))]
	if len(seen) >= 4 {
		w := specref.CRC(seen[:len(seen)-2])
		if seen[len(seen)-2] == byte(w) && seen[len(seen)-1] == byte(w>>8) {
			cut := false
			for _, e := range out.Events {
				cut = cut || (e.Op == "read" && e.Truncated)
			}
			if !cut || out.Err != nil {
				r.Cover("skipped", "consumed-prefix-is-crc-consistent")
				return
			}
			// the rest of the damaged reply was there, in the same burst: it stayed unread only because the client's own
			// receive buffer was full - the client looked at a buffer-sized window of the reply and called it intact
			a["cut_by_receive_buffer"] = true
		}
	}
	if out.Err == nil {
		a["what"] = what
		if libx.IsNilValue(out.Resp) {
			r.Violate(c, "bad-crc-without-error", a, fmt.Sprintf("%s: returned no error at all (and a nil response)", ctx))
			return
		}
		r.Violate(c, "bad-crc-as-data", a, fmt.Sprintf("%s: returned %T % x as a successful response", ctx, out.Resp, head(out.Resp.Bytes())))
		return
	}
	var er *packet.ErrorResponseRTU
	var et *packet.ErrorResponseTCP
	if errors.As(out.Err, &er) || errors.As(out.Err, &et) {
		// where did the client look? a read boundary that left exactly 5 bytes with bit 7 of byte 1 set is the early shortcut
		at5 := false
		total := 0
		for _, e := range out.Events {
			if e.Op == "read" {
				total += e.N
				if e.N > 0 && total == 5 && len(bad) >= 5 && bad[1]&0x80 != 0 {
					at5 = true
				}
			}
		}
		if at5 {
			r.Violate(c, "early-exception-no-crc", a, fmt.Sprintf("%s: a read boundary left exactly 5 bytes (% x) with the exception bit set; client returned device exception %v without verifying the CRC", ctx, bad[:5], out.Err))
		} else {
			a["what"] = what
			r.Violate(c, "bad-crc-as-exception", a, fmt.Sprintf("%s: returned device exception %v", ctx, out.Err))
		}
		return
	}
	if !libx.IsNilValue(out.Resp) {
		r.Violate(c, "error-with-response", a, fmt.Sprintf("%s: %T with %v", ctx, out.Resp, out.Err))
	}
}

func b2u(b bool) uint64 {
	if b {
		return 1
	}
	return 0
}

func head(b []byte) []byte {
	if len(b) > 24 {
		return b[:24]
	}
	return b
}

// Package c13: reading values out of a response never changes it.
package c13

import (
	"bytes"
	"fmt"
	"math"
	"math/rand"
	"strings"
	"sync"

	modbus "github.com/aldas/go-modbus-client"
	"github.com/aldas/go-modbus-client/packet"
	"verif/libx"
	"verif/mon"
	"verif/regref"
	"verif/specref"
)

// Op is one accessor call.
type Op struct {
	V    int `json:"v"`    // variant index
	Addr int `json:"addr"` // register address
}

type Case struct {
	Kind    string `json:"kind"` // pairs | history | extract
	Framing int    `json:"framing"`
	FC      uint8  `json:"fc"`
	Start   int    `json:"start"`
	Regs    int    `json:"regs"`
	Seed    int64  `json:"seed"`
	V1      int    `json:"v1,omitempty"`
	Ops     []Op   `json:"ops,omitempty"`
}

type variant struct {
	name string
	call func(r *packet.Registers, a uint16) (any, error)
}

var variants []variant

func init() {
	add := func(n string, f func(r *packet.Registers, a uint16) (any, error)) {
		variants = append(variants, variant{n, f})
	}
	add("Register", func(r *packet.Registers, a uint16) (any, error) { return r.Register(a) })
	add("Bit3", func(r *packet.Registers, a uint16) (any, error) { return r.Bit(a, 3) })
	add("Bit12", func(r *packet.Registers, a uint16) (any, error) { return r.Bit(a, 12) })
	add("ByteHi", func(r *packet.Registers, a uint16) (any, error) { return r.Byte(a, true) })
	add("Uint8Lo", func(r *packet.Registers, a uint16) (any, error) { return r.Uint8(a, false) })
	add("Int8Hi", func(r *packet.Registers, a uint16) (any, error) { return r.Int8(a, true) })
	add("Uint16", func(r *packet.Registers, a uint16) (any, error) { return r.Uint16(a) })
	add("Int16", func(r *packet.Registers, a uint16) (any, error) { return r.Int16(a) })
	add("Uint32", func(r *packet.Registers, a uint16) (any, error) { return r.Uint32(a) })
	add("Int32", func(r *packet.Registers, a uint16) (any, error) { return r.Int32(a) })
	add("Uint64", func(r *packet.Registers, a uint16) (any, error) { return r.Uint64(a) })
	add("Int64", func(r *packet.Registers, a uint16) (any, error) { return r.Int64(a) })
	add("Float32", func(r *packet.Registers, a uint16) (any, error) { return r.Float32(a) })
	add("Float64", func(r *packet.Registers, a uint16) (any, error) { return r.Float64(a) })
	for _, l := range []uint8{1, 2, 3, 4, 7, 8} {
		l := l
		add(fmt.Sprintf("String%d", l), func(r *packet.Registers, a uint16) (any, error) { return r.String(a, l) })
	}
	// side-effect freedom is independent of whether an order is documented: also the word-order-only flags 4, 8, 12
	for _, o := range append(append([]regref.Order{}, regref.Orders...), regref.LowWordFirst, regref.HighWordFirst, regref.LowWordFirst|regref.HighWordFirst) {
		po := packet.ByteOrder(o)
		add(fmt.Sprintf("DoubleRegister/%d", o), func(r *packet.Registers, a uint16) (any, error) { return r.DoubleRegister(a, po) })
		add(fmt.Sprintf("QuadRegister/%d", o), func(r *packet.Registers, a uint16) (any, error) { return r.QuadRegister(a, po) })
		add(fmt.Sprintf("Uint32WithByteOrder/%d", o), func(r *packet.Registers, a uint16) (any, error) { return r.Uint32WithByteOrder(a, po) })
		add(fmt.Sprintf("Int32WithByteOrder/%d", o), func(r *packet.Registers, a uint16) (any, error) { return r.Int32WithByteOrder(a, po) })
		add(fmt.Sprintf("Uint64WithByteOrder/%d", o), func(r *packet.Registers, a uint16) (any, error) { return r.Uint64WithByteOrder(a, po) })
		add(fmt.Sprintf("Int64WithByteOrder/%d", o), func(r *packet.Registers, a uint16) (any, error) { return r.Int64WithByteOrder(a, po) })
		add(fmt.Sprintf("Float32WithByteOrder/%d", o), func(r *packet.Registers, a uint16) (any, error) { return r.Float32WithByteOrder(a, po) })
		add(fmt.Sprintf("Float64WithByteOrder/%d", o), func(r *packet.Registers, a uint16) (any, error) { return r.Float64WithByteOrder(a, po) })
		for _, l := range []uint8{3, 4} {
			l := l
			add(fmt.Sprintf("StringWithByteOrder%d/%d", l, o), func(r *packet.Registers, a uint16) (any, error) { return r.StringWithByteOrder(a, l, po) })
		}
	}
}

func Spec() *mon.Spec {
	return &mon.Spec{
		ID:      "C13",
		RuleAdd: "Later additions (rounds 4-17): near-twin fields; reads on views configured with WithByteOrder; byte slices returned by the raw accessors are overwritten and grown by their caller; concurrent readers on plain and configured views; the same Field value read twice; histories of chained reads view.WithByteOrder(o).X(addr) incl. incomplete orders.",
		Level:   "exploration",
		Rule: fmt.Sprintf("a register response (FC3/FC4/FC23, TCP/RTU) is parsed from a frame buffer by the library and viewed through AsRegisters; a history of accessor calls (%d accessor variants incl. all documented orders) runs on ONE view. Monitors: the whole frame buffer (which the payload aliases) is compared with its snapshot after every call; every call's result must equal the result of the same call made alone on a freshly parsed copy (=> repeat- and order-independence). ", len(variants)) +
			"pairs: all ordered pairs of variants on overlapping addresses of a 6-register payload (exhaustive); history: PRNG histories of length 1..12; extract: builder requests with overlapping fields of mixed byte orders: ExtractFields strict+lenient, repeated, with permuted field order, and Field.ExtractFrom on one shared Registers, compared per field name with the field extracted alone. distinct key=(ordered variant pair | history hash | field-list hash).",
		Assumptions: []string{"results are compared by printed value (floats by bit pattern); the 'alone' baseline is the library itself on a fresh copy, so this check decides interference, not decoding correctness (C04 does that)"},
		NewCase:     func() any { return &Case{} },
		Gen:         gen,
		Run:         run,
		Exhaustive:  true,
		Race:        true,
		SelfTest:    regref.SelfTest,
	}
}

func gen(g *mon.Gen) {
	rng := g.Rng
	for v1 := range variants {
		g.Emit(&Case{Kind: "pairs", Framing: v1 % 2, FC: []uint8{3, 4, 23}[v1%3], Start: []int{0, 100, 65530}[v1%3], Regs: 6, Seed: rng.Int63(), V1: v1})
	}
	for i := 0; i < g.Pick(12000, 2000000); i++ {
		n := 1 + rng.Intn(12)
		regs := 1 + rng.Intn(10)
		if rng.Intn(4) == 0 {
			regs = 1 + rng.Intn(125)
		}
		start := []int{0, 1, 1000, 65536 - regs, rng.Intn(65536 - regs + 1)}[rng.Intn(5)]
		c := &Case{Kind: "history", Framing: rng.Intn(2), FC: []uint8{3, 4, 23}[rng.Intn(3)], Start: start, Regs: regs, Seed: rng.Int63()}
		for k := 0; k < n; k++ {
			c.Ops = append(c.Ops, Op{V: rng.Intn(len(variants)), Addr: start - 1 + rng.Intn(regs+2)})
		}
		g.Emit(c)
	}
	// concurrent readers of one view: a temporary in-place rearrangement is a side effect too (built with -race)
	for i := 0; i < g.Pick(40, 600); i++ {
		regs := []int{4, 20, 125}[i%3]
		g.Emit(&Case{Kind: "concurrent", Framing: i % 2, FC: []uint8{3, 4, 23}[i%3], Start: []int{0, 1000, 65536 - regs}[i%3], Regs: regs, Seed: rng.Int63()})
	}
	for i := 0; i < g.Pick(8000, 800000); i++ {
		regs := 2 + rng.Intn(20)
		g.Emit(&Case{Kind: "extract", Framing: rng.Intn(2), FC: []uint8{3, 4}[rng.Intn(2)], Start: []int{0, 40, 65536 - regs}[rng.Intn(3)], Regs: regs, Seed: rng.Int63()})
	}
}

// parsed builds a frame for the payload and lets the library parse it; returns the frame buffer and a Registers view.
func parsed(c *Case, payload []byte) (frame []byte, regs *packet.Registers, resp packet.Response, err error) {
	fr := specref.Framing(c.Framing)
	frame = specref.Resp{FC: c.FC, Unit: 7, TID: 0x1234, Data: payload}.Encode(fr)
	if fr == specref.TCP {
		resp, err = packet.ParseTCPResponse(frame)
	} else {
		resp, err = packet.ParseRTUResponseWithCRC(frame)
	}
	if err != nil {
		return nil, nil, nil, err
	}
	ar, ok := resp.(interface {
		AsRegisters(uint16) (*packet.Registers, error)
	})
	if !ok {
		return nil, nil, nil, fmt.Errorf("%T has no AsRegisters", resp)
	}
	regs, err = ar.AsRegisters(uint16(c.Start))
	return
}

func show(v any, err error) string {
	if err != nil {
		return "error"
	}
	switch x := v.(type) {
	case float32:
		return fmt.Sprintf("f32:%08x", math.Float32bits(x))
	case float64:
		return fmt.Sprintf("f64:%016x", math.Float64bits(x))
	case []byte:
		return fmt.Sprintf("b:%x", x)
	case string:
		return fmt.Sprintf("s:%q", x)
	}
	return fmt.Sprintf("%T:%v", v, v)
}

func callV(v int, r *packet.Registers, addr int) (res string, panicked bool) {
	if addr < 0 || addr > 65535 {
		return "skip", false
	}
	var out any
	var err error
	if p, t := mon.Catch(func() { out, err = variants[v].call(r, uint16(addr)) }); p {
		return "panic:" + t, true
	}
	return show(out, err), false
}

func runHistory(c *Case, r *mon.Rec, payload []byte, ops []Op) {
	frame, view, _, err := parsed(c, payload)
	if err != nil {
		r.Violate(c, "cannot-parse", mon.Attrs{}, err.Error())
		return
	}
	snap := append([]byte{}, frame...)
	for i, op := range ops {
		got, pn := callV(op.V, view, op.Addr)
		r.Eval(2)
		if pn {
			continue // panics are C04's business
		}
		if !bytes.Equal(frame, snap) {
			r.Violate(c, "payload-mutated", mon.Attrs{"accessor": variants[op.V].name}, fmt.Sprintf("after call %d (%s at %d) the response buffer changed: before % x after % x", i, variants[op.V].name, op.Addr, snap, frame))
			copy(frame, snap)
		}
		// baseline: the same call alone on a freshly parsed copy
		_, fresh, _, err := parsed(c, payload)
		if err != nil {
			return
		}
		want, _ := callV(op.V, fresh, op.Addr)
		if got != want {
			prev := "none"
			if i > 0 {
				prev = variants[ops[i-1].V].name
			}
			r.Violate(c, "result-depends-on-history", mon.Attrs{"accessor": variants[op.V].name, "after": prev},
				fmt.Sprintf("call %d (%s at %d) returned %s after history %v, but %s when made alone on a fresh copy", i, variants[op.V].name, op.Addr, got, names(ops[:i]), want))
		}
	}
}

// runChained: reads written the chained way, view.WithByteOrder(o).X(addr), on ONE view. Each read names its order, so its
// result is a function of (o, X, addr) and the payload alone - whatever orders the reads before it selected. Orders
// include the incomplete values a caller may pass (only an endianness: 1, 2; only a word order: 4, 8, 12; none: 0).
func runChained(c *Case, r *mon.Rec, rng *rand.Rand, payload []byte) {
	_, view, _, err := parsed(c, payload)
	if err != nil {
		return
	}
	orders := []packet.ByteOrder{0, 1, 2, 4, 5, 6, 8, 9, 10, 12}
	var plain []int
	for i, v := range variants {
		if !strings.Contains(v.name, "/") {
			plain = append(plain, i)
		}
	}
	var hist []string
	for i := 0; i < 10; i++ {
		o := orders[rng.Intn(len(orders))]
		v := plain[rng.Intn(len(plain))]
		addr := c.Start + rng.Intn(c.Regs)
		got, pn := callV(v, view.WithByteOrder(o), addr)
		if pn {
			continue
		}
		_, fresh, _, err := parsed(c, payload)
		if err != nil {
			return
		}
		want, _ := callV(v, fresh.WithByteOrder(o), addr)
		r.Eval(1)
		if got != want {
			r.Violate(c, "result-depends-on-history", mon.Attrs{"accessor": "WithByteOrder(o)." + variants[v].name, "order": int(o)},
				fmt.Sprintf("view.WithByteOrder(%d).%s(%d) returned %s after the chained reads %v on the same view, %s on a fresh view", o, variants[v].name, addr, got, hist, want))
			return
		}
		hist = append(hist, fmt.Sprintf("WithByteOrder(%d).%s@%d", o, variants[v].name, addr))
	}
	r.Cover("history", "chained WithByteOrder(o).X(addr) reads")
}

func names(ops []Op) []string {
	var out []string
	for _, o := range ops {
		out = append(out, fmt.Sprintf("%s@%d", variants[o.V].name, o.Addr))
	}
	return out
}

func run(ci any, r *mon.Rec) {
	c := ci.(*Case)
	rng := rand.New(rand.NewSource(c.Seed))
	payload := libx.RandBytes(rng, 2*c.Regs)
	if rng.Intn(2) == 0 {
		for i := range payload {
			payload[i] = byte('A' + (i*7+int(c.Seed&7))%50)
		}
	}
	switch c.Kind {
	case "pairs":
		for v2 := range variants {
			for _, d := range []int{0, 1, -1} {
				a1 := c.Start + 2
				ops := []Op{{c.V1, a1}, {v2, a1 + d}, {c.V1, a1}, {v2, a1 + d}}
				runHistory(c, r, payload, ops)
				r.Distinct(mon.Mix(1, uint64(c.V1), uint64(v2), uint64(d+1)))
			}
		}
		if c.V1%20 == 0 {
			r.Sample(map[string]any{"kind": "pairs", "first": variants[c.V1].name, "second_variants": len(variants), "history": "A(x) B(x+d) A(x) B(x+d), d in {0,1,-1}"})
		}
	case "history":
		runHistory(c, r, payload, c.Ops)
		runChained(c, r, rng, payload)
		h := uint64(2)
		for _, o := range c.Ops {
			h = mon.Mix(h, uint64(o.V), uint64(o.Addr-c.Start+2))
		}
		r.Distinct(h)
		r.Sample(map[string]any{"kind": "history", "ops": names(c.Ops), "regs": c.Regs, "start": c.Start})
	case "extract":
		runExtract(c, r, rng, payload)
	case "concurrent":
		runConcurrent(c, r, rng, payload)
	}
}

// runConcurrent: several goroutines read overlapping registers of ONE view at the same time; every result must equal the
// result of the same call made alone on a fresh copy, and the buffer must be unchanged afterwards.
func runConcurrent(c *Case, r *mon.Rec, rng *rand.Rand, payload []byte) {
	frame, view, _, err := parsed(c, payload)
	if err != nil {
		r.Violate(c, "cannot-parse", mon.Attrs{}, err.Error())
		return
	}
	snap := append([]byte{}, frame...)
	// half of the runs read through a view the caller configured with a default order of its own (all goroutines share it)
	cfgOrd := packet.ByteOrder(0)
	if c.Seed%2 == 0 {
		cfgOrd = packet.ByteOrder(regref.Orders[1+rng.Intn(len(regref.Orders)-1)])
		view.WithByteOrder(cfgOrd)
		r.Cover("concurrent", "configured-view")
	}
	fresh0 := func() *packet.Registers {
		_, f, _, _ := parsed(c, payload)
		if cfgOrd != 0 {
			f.WithByteOrder(cfgOrd)
		}
		return f
	}
	// call set: long strings over the whole window plus numeric reads inside it
	type want struct {
		op  Op
		res string
	}
	var calls []want
	strV := -1
	for i, v := range variants {
		if v.name == "String8" {
			strV = i
		}
	}
	for k := 0; k < 24; k++ {
		op := Op{V: rng.Intn(len(variants)), Addr: c.Start + rng.Intn(c.Regs)}
		if k%3 == 0 && strV >= 0 {
			op.V = strV
		}
		res, _ := callV(op.V, fresh0(), op.Addr)
		calls = append(calls, want{op, res})
	}
	long := func(v *packet.Registers) (string, error) {
		n := 2 * c.Regs
		if n > 250 {
			n = 250
		}
		return v.String(uint16(c.Start), uint8(n))
	}
	longWant, longErr := long(fresh0())
	var wg sync.WaitGroup
	var mu sync.Mutex
	var bad []string
	for g := 0; g < 8; g++ {
		wg.Add(1)
		go func(g int) {
			defer wg.Done()
			for round := 0; round < 300; round++ {
				if g%2 == 0 {
					got, e := long(view)
					if (e == nil) != (longErr == nil) || got != longWant {
						mu.Lock()
						bad = append(bad, fmt.Sprintf("String over the whole window returned %q, alone on a fresh copy %q", got, longWant))
						mu.Unlock()
						return
					}
					continue
				}
				w := calls[(g*7+round)%len(calls)]
				if got, _ := callV(w.op.V, view, w.op.Addr); got != w.res {
					mu.Lock()
					bad = append(bad, fmt.Sprintf("%s at %d returned %s while other goroutines were reading the same view, alone on a fresh copy %s", variants[w.op.V].name, w.op.Addr, got, w.res))
					mu.Unlock()
					return
				}
			}
		}(g)
	}
	wg.Wait()
	r.Eval(8 * 300)
	if len(bad) > 0 {
		r.Violate(c, "concurrent-readers-interfere", mon.Attrs{}, bad[0])
	}
	if !bytes.Equal(frame, snap) {
		r.Violate(c, "payload-mutated", mon.Attrs{"accessor": "concurrent-readers"}, fmt.Sprintf("buffer changed: before % x after % x", snap[:min(len(snap), 40)], frame[:min(len(frame), 40)]))
	}
	r.Distinct(mon.Mix(9, uint64(c.Regs), uint64(c.Start), uint64(c.Seed)))
}

func randField(rng *rand.Rand, c *Case, i int) modbus.Field {
	types := []modbus.FieldType{modbus.FieldTypeBit, modbus.FieldTypeByte, modbus.FieldTypeUint8, modbus.FieldTypeInt8, modbus.FieldTypeUint16, modbus.FieldTypeInt16,
		modbus.FieldTypeUint32, modbus.FieldTypeInt32, modbus.FieldTypeUint64, modbus.FieldTypeInt64, modbus.FieldTypeFloat32, modbus.FieldTypeFloat64, modbus.FieldTypeString}
	f := modbus.Field{Name: fmt.Sprintf("f%d", i), ServerAddress: "dev:502", UnitID: 1, Type: types[rng.Intn(len(types))],
		Address: uint16(c.Start + rng.Intn(c.Regs)), Bit: uint8(rng.Intn(16)), FromHighByte: rng.Intn(2) == 0, Length: uint8(1 + rng.Intn(8)),
		ByteOrder: packet.ByteOrder(append(append([]regref.Order{}, regref.Orders...), 4, 8, 12)[rng.Intn(len(regref.Orders)+3)])}
	return f
}

func fvKey(fv modbus.FieldValue) string {
	if fv.Error != nil {
		return "error"
	}
	return show(fv.Value, nil)
}

func runExtract(c *Case, r *mon.Rec, rng *rand.Rand, payload []byte) {
	n := 2 + rng.Intn(8)
	fields := make(modbus.Fields, n)
	for i := range fields {
		fields[i] = randField(rng, c, i)
		if i > 0 && rng.Intn(2) == 0 {
			// a near twin of an earlier field: same address, ONE attribute different (string length by one, bit, byte half,
			// byte order, or a type of the same width) - what a memo keyed on too few attributes would confuse
			f := fields[rng.Intn(i)]
			f.Name = fmt.Sprintf("f%d", i)
			switch rng.Intn(5) {
			case 0:
				if f.Length%2 == 1 {
					f.Length++
				} else if f.Length > 1 {
					f.Length--
				}
			case 1:
				f.Bit = (f.Bit + 1 + uint8(rng.Intn(15))) % 16
			case 2:
				f.FromHighByte = !f.FromHighByte
			case 3:
				f.ByteOrder = randField(rng, c, i).ByteOrder
			default:
				twins := map[modbus.FieldType][]modbus.FieldType{
					modbus.FieldTypeUint32: {modbus.FieldTypeInt32, modbus.FieldTypeFloat32}, modbus.FieldTypeInt32: {modbus.FieldTypeUint32, modbus.FieldTypeFloat32}, modbus.FieldTypeFloat32: {modbus.FieldTypeUint32, modbus.FieldTypeInt32},
					modbus.FieldTypeUint64: {modbus.FieldTypeInt64, modbus.FieldTypeFloat64}, modbus.FieldTypeInt64: {modbus.FieldTypeUint64, modbus.FieldTypeFloat64}, modbus.FieldTypeFloat64: {modbus.FieldTypeUint64, modbus.FieldTypeInt64},
					modbus.FieldTypeUint16: {modbus.FieldTypeInt16}, modbus.FieldTypeInt16: {modbus.FieldTypeUint16}, modbus.FieldTypeUint8: {modbus.FieldTypeInt8, modbus.FieldTypeByte}, modbus.FieldTypeInt8: {modbus.FieldTypeUint8}, modbus.FieldTypeByte: {modbus.FieldTypeInt8},
				}
				if t := twins[f.Type]; len(t) > 0 {
					f.Type = t[rng.Intn(len(t))]
				}
			}
			fields[i] = f
		}
	}
	mkReq := func(fs modbus.Fields) modbus.BuilderRequest {
		return modbus.BuilderRequest{ServerAddress: "dev:502", UnitID: 1, StartAddress: uint16(c.Start), Fields: fs}
	}
	// baseline: each field alone on a fresh response
	alone := map[string]string{}
	for _, f := range fields {
		_, _, resp, err := parsed(c, payload)
		if err != nil {
			r.Violate(c, "cannot-parse", mon.Attrs{}, err.Error())
			return
		}
		vals, _ := mkReq(modbus.Fields{f}).ExtractFields(resp, true)
		if len(vals) != 1 {
			return
		}
		alone[f.Name] = fvKey(vals[0])
	}
	frame, view, resp, err := parsed(c, payload)
	if err != nil {
		return
	}
	snap := append([]byte{}, frame...)
	check := func(what string, vals []modbus.FieldValue) {
		r.Eval(len(vals) + 1)
		if !bytes.Equal(frame, snap) {
			r.Violate(c, "payload-mutated", mon.Attrs{"accessor": "ExtractFields"}, fmt.Sprintf("%s changed the response buffer: before % x after % x", what, snap, frame))
			copy(frame, snap)
		}
		for _, fv := range vals {
			if got, want := fvKey(fv), alone[fv.Field.Name]; got != want {
				r.Violate(c, "result-depends-on-history", mon.Attrs{"accessor": "ExtractFields", "type": int(fv.Field.Type)},
					fmt.Sprintf("%s: field %+v = %s, but %s when extracted alone from a fresh response", what, fv.Field, got, want))
			}
		}
	}
	perm := make(modbus.Fields, n)
	for i, j := range rng.Perm(n) {
		perm[i] = fields[j]
	}
	for round := 0; round < 2; round++ {
		v1, _ := mkReq(fields).ExtractFields(resp, true)
		check(fmt.Sprintf("lenient extraction #%d", round+1), v1)
		v2, _ := mkReq(perm).ExtractFields(resp, true)
		check(fmt.Sprintf("lenient extraction with permuted field order #%d", round+1), v2)
		v3, err3 := mkReq(fields).ExtractFields(resp, false)
		if err3 == nil {
			check("strict extraction", v3)
		}
	}
	// Field.ExtractFrom has a pointer receiver: called twice on the very same Field value it answers the same and leaves
	// the definition as it was
	for k := range fields {
		fp := &fields[k]
		orig := *fp
		_, v0, _, perr := parsed(c, payload)
		if perr != nil {
			break
		}
		var a1, a2 any
		var e1, e2 error
		if p, _ := mon.Catch(func() { a1, e1 = fp.ExtractFrom(v0); a2, e2 = fp.ExtractFrom(v0) }); p {
			continue
		}
		r.Eval(1)
		if show(a1, e1) != show(a2, e2) || *fp != orig {
			r.Violate(c, "result-depends-on-history", mon.Attrs{"accessor": "Field.ExtractFrom/same-field-twice", "type": int(orig.Type)},
				fmt.Sprintf("field %+v: first read %s, second read %s, definition afterwards %+v", orig, show(a1, e1), show(a2, e2), *fp))
			*fp = orig
		}
	}
	// Field.ExtractFrom on one shared Registers view, forward then backward
	for pass := 0; pass < 2; pass++ {
		for k := range fields {
			f := fields[k]
			if pass == 1 {
				f = fields[n-1-k]
			}
			var v any
			var e error
			if p, _ := mon.Catch(func() { v, e = f.ExtractFrom(view) }); p {
				continue
			}
			r.Eval(1)
			if got := show(v, e); got != alone[f.Name] {
				r.Violate(c, "result-depends-on-history", mon.Attrs{"accessor": "Field.ExtractFrom", "type": int(f.Type)},
					fmt.Sprintf("shared Registers: field %+v = %s, alone = %s", f, got, alone[f.Name]))
			}
			if !bytes.Equal(frame, snap) {
				r.Violate(c, "payload-mutated", mon.Attrs{"accessor": "Field.ExtractFrom"}, fmt.Sprintf("field %+v changed the buffer", f))
				copy(frame, snap)
			}
		}
	}
	// the same on a Registers view the caller configured with a default order of its own (WithByteOrder): every field read
	// leaves that configuration as it found it, so a field reads the same alone and after any other field
	ord := packet.ByteOrder(regref.Orders[1+rng.Intn(len(regref.Orders)-1)])
	alone2 := map[string]string{}
	for _, f := range fields {
		_, v0, _, err := parsed(c, payload)
		if err != nil {
			return
		}
		v0.WithByteOrder(ord)
		var v any
		var e error
		if p, _ := mon.Catch(func() { v, e = f.ExtractFrom(v0) }); p {
			continue
		}
		alone2[f.Name] = show(v, e)
	}
	fr2, vs, _, err := parsed(c, payload)
	if err == nil {
		vs.WithByteOrder(ord)
		// the raw accessors hand out byte slices: whatever the caller does with them afterwards (here: overwrite them)
		// stays the caller's business - the response keeps its bytes. On a configured view, with the argument 0 ("use the
		// default") as well as with explicit orders
		snap2 := append([]byte{}, fr2...)
		for k := 0; k < c.Regs; k++ {
			a := uint16(c.Start + k)
			for _, o := range []packet.ByteOrder{0, ord, packet.ByteOrder(regref.Orders[rng.Intn(len(regref.Orders))])} {
				for _, get := range []func() ([]byte, error){
					func() ([]byte, error) { return vs.Register(a) },
					func() ([]byte, error) { return vs.DoubleRegister(a, o) },
					func() ([]byte, error) { return vs.QuadRegister(a, o) },
				} {
					var b []byte
					if p, _ := mon.Catch(func() { b, _ = get() }); p {
						continue
					}
					for i := range b {
						b[i] ^= 0xA5
					}
					b = append(b, 0xEE, 0xEE) // and grow it: must not run into the payload either
					_ = b
				}
			}
		}
		r.Eval(c.Regs)
		if !bytes.Equal(fr2, snap2) {
			r.Violate(c, "payload-mutated", mon.Attrs{"accessor": "raw-accessor-result-overwritten"}, fmt.Sprintf("view configured with WithByteOrder(%d): after the byte slices returned by Register/DoubleRegister/QuadRegister were overwritten by their caller the response buffer reads % x, it was % x", ord, fr2[:min(len(fr2), 40)], snap2[:min(len(snap2), 40)]))
			copy(fr2, snap2)
		}
		for pass := 0; pass < 2; pass++ {
			for k := range fields {
				f := fields[k]
				if pass == 1 {
					f = fields[n-1-k]
				}
				want, ok := alone2[f.Name]
				if !ok {
					continue
				}
				var v any
				var e error
				if p, _ := mon.Catch(func() { v, e = f.ExtractFrom(vs) }); p {
					continue
				}
				r.Eval(1)
				if got := show(v, e); got != want {
					r.Violate(c, "result-depends-on-history", mon.Attrs{"accessor": "Field.ExtractFrom/configured-view", "type": int(f.Type)},
						fmt.Sprintf("Registers configured with WithByteOrder(%d): field %+v = %s after other fields were read, %s when read first", ord, f, got, want))
					break
				}
			}
		}
	}
	h := uint64(3)
	for _, f := range fields {
		h = mon.Mix(h, uint64(f.Type), uint64(int(f.Address)-c.Start), uint64(f.ByteOrder), uint64(f.Length))
	}
	r.Distinct(h)
}

package c17

import "os"

var osErrDeadline = os.ErrDeadlineExceeded

// Package c17: server lifecycle: safe with any callbacks, exact accounting, graceful shutdown.
package c17

import (
	"bytes"
	"context"
	"errors"
	"fmt"
	"math/rand"
	"net"
	"sort"
	"sync"
	"sync/atomic"
	"time"

	"github.com/aldas/go-modbus-client/packet"
	"github.com/aldas/go-modbus-client/server"
	"verif/mon"
	"verif/simdev"
	"verif/specref"
	"verif/srvx"
)

type Case struct {
	Mask     int    `json:"mask"` // bit0 OnServe, bit1 OnError, bit2 OnAccept, bit3 OnClose
	Seed     int64  `json:"seed"`
	K        int    `json:"k"`
	Terminal string `json:"terminal"` // shutdown | shutdown-inflight | cancel | both
	Yield    bool   `json:"yield"`
	HDelay   int    `json:"hdelay"` // handler duration class: 0 none, 1 yield, 2 1-5 ms
	// InAccept > 0 (terminal "cancel"): the context is cancelled right when the InAccept-th accept callback is entered.
	InAccept int `json:"in_accept,omitempty"`
}

// CrashAttrs names the configuration when the child process dies while executing this case.
func (c *Case) CrashAttrs() mon.Attrs {
	return mon.Attrs{"on_accept": c.Mask&4 != 0, "on_close": c.Mask&8 != 0}
}

func Spec() *mon.Spec {
	return &mon.Spec{
		ID:      "C17",
		RuleAdd: "Later additions (rounds 4-17): reply bytes owed before Shutdown returns; listener left open; Shutdown before Serve; restart (second Serve on the same value, a first Shutdown that times out); slow accept callbacks and cancellation inside them; callbacks that call Addr(); close callbacks that take 1-3 ms; the one-slot admission limiter (exact counts 1, 2, 1); the drain scenario (blocked context-respecting handler, a client dialling during the wait, two overlapping Shutdown calls); listener hand-over between two serve calls; real TCP listener cases.",
		Level:   "exploration",
		Rule: "built with -race and the verif hooks; every case runs in a child process (a crash identifies its case). All 16 set/unset combinations of OnServeFunc/OnErrorFunc/OnAcceptConnFunc/OnCloseConnFunc x PRNG schedules of K<=12 clients {connect, get rejected by the accept callback, send 1..3 lock-step requests, idle, disconnect or stay} x handler duration {0, yield, 1-5 ms} x terminal action {Shutdown at a PRNG logical point, Shutdown while a handler is running, Shutdown right after a handler returned (reply being written, with a transport-level delay before the write), context cancel, both} x PRNG delays at the four verif yield points (off in one third of the cases); server.Server.Serve on an in-memory listener whose connections record every server-side Read/Write/Close, all stamped from one logical clock shared with the callbacks and the handler. " +
			"Oracles: no crash, no race report; accept callback count within [A+1-S, A+1-C] (A = connections accepted and tracked before, exact because the accept loop is sequential; S = of those, server-side Close seen before the callback; C = close callbacks begun before Accept returned); rejected connection: server-side Close and client EOF; close callback exactly once per accepted connection, never for rejected ones; Shutdown()==nil => Serve returned ErrServerClosed, new dial fails, every connection closed by the server, every request whose handler started before Shutdown was called got its complete reply (started between call and return: own class inflight-toctou); cancel => Serve returns without needing another connection (state witness: returned only after a kick connection); at quiescence VerifConnAccounting()==(0,0). distinct key=(mask, terminal, yield, schedule hash).",
		Assumptions:  []string{"waits (2-3 s) only bound how long the monitor looks for an event the oracle requires; a missing event is reported with the state witness (what was and was not observed), never from the clock alone"},
		NewCase:      func() any { return &Case{} },
		Gen:          gen,
		Run:          run,
		Race:         true,
		Isolated:     true,
		BatchSize:    8,
		ChildWorkers: 1, // the yield hook is process-global
		SelfTest:     specref.SelfTest,
	}
}

func gen(g *mon.Gen) {
	rng := g.Rng
	for i := 0; i < g.Pick(6, 60); i++ {
		g.Emit(&Case{Mask: 3, Seed: rng.Int63(), K: 2, Terminal: []string{"tcp-shutdown", "tcp-cancel"}[i%2]})
	}
	for i := 0; i < g.Pick(12, 200); i++ {
		g.Emit(&Case{Mask: i % 4, Seed: rng.Int63(), K: 0, Terminal: "shutdown-at-start"})
	}
	for i := 0; i < g.Pick(4, 40); i++ {
		g.Emit(&Case{Mask: i % 2, Seed: rng.Int63(), K: 0, Terminal: "restart"}) // odd: a first Shutdown attempt that times out comes before the real one
	}
	for i := 0; i < g.Pick(4, 60); i++ {
		g.Emit(&Case{Mask: 12, Seed: rng.Int63(), K: 0, Terminal: "limiter"})
	}
	for i := 0; i < g.Pick(6, 80); i++ {
		g.Emit(&Case{Mask: i % 2, Seed: rng.Int63(), K: 0, Terminal: "drain"}) // odd: two overlapping Shutdown calls
	}
	for i := 0; i < g.Pick(4, 40); i++ {
		g.Emit(&Case{Mask: 0, Seed: rng.Int63(), K: 0, Terminal: "handover"})
	}
	for i := 0; i < g.Pick(6, 60); i++ {
		// the context ends while an accept callback is running (masks with both the accept and the close callback)
		g.Emit(&Case{Mask: 12 | i%4, Seed: rng.Int63(), K: 3 + rng.Intn(8), Terminal: "cancel", InAccept: 1 + i%3, Yield: i%2 == 0, HDelay: rng.Intn(3)})
	}
	per := g.Pick(6, 200)
	for mask := 0; mask < 16; mask++ {
		for i := 0; i < per; i++ {
			g.Emit(&Case{Mask: mask, Seed: rng.Int63(), K: 1 + rng.Intn(12), Terminal: []string{"shutdown", "shutdown-inflight", "cancel", "both", "shutdown-replying", "shutdown-inflight"}[i%6], Yield: i%3 != 2, HDelay: rng.Intn(3)})
		}
	}
}

type acceptEv struct {
	entry, acceptSeq int64
	remote           string
	count            uint64
	rejected         bool
}

type closeEv struct {
	entry    int64
	remote   string
	shutdown bool
}

type reqRec struct {
	tid      uint16
	client   int
	complete bool
	sent     bool
	err      string
}

type scenario struct {
	c   *Case
	r   *mon.Rec
	l   *srvx.MemListener
	clk *srvx.Stamp

	mu       sync.Mutex
	accepts  []acceptEv
	closes   []closeEv
	hstart   map[uint16]int64
	hend     map[uint16]int64
	reqs     []*reqRec
	rejected map[string]bool
	done     atomic.Int64
	inflight chan struct{}
	hdone    chan struct{}
	inAccept chan struct{}
}

// runTCP: ListenAndServe on the loopback interface: after Shutdown()==nil (or context cancel) the serve call has returned
// ErrServerClosed and the port refuses connections. Skipped (not a verdict) when loopback is unavailable.
func runTCP(c *Case, r *mon.Rec, rng *rand.Rand) {
	dev := simdev.New(uint64(c.Seed), "srv")
	s := &server.Server{OnErrorFunc: func(error) {}, WriteTimeout: 2 * time.Second} // (the default 50 ms write timeout is scheduling noise on a loaded machine)
	addrCh := make(chan net.Addr, 1)
	s.OnServeFunc = func(a net.Addr) { addrCh <- a }
	var rejectNext atomic.Bool
	if c.Seed%4 != 0 {
		s.OnAcceptConnFunc = func(context.Context, net.Addr, uint64) error {
			if rejectNext.Swap(false) {
				return errors.New("no room")
			}
			return nil
		}
	}
	ctx, cancel := context.WithCancel(context.Background())
	defer cancel()
	served := make(chan error, 1)
	go func() { served <- s.ListenAndServe(ctx, "127.0.0.1:0", srvx.DevHandler(dev, nil)) }()
	var addr net.Addr
	select {
	case addr = <-addrCh:
	case <-served:
		r.Cover("tcp", "unavailable")
		return
	case <-time.After(3 * time.Second):
		r.Cover("tcp", "unavailable")
		return
	}
	var conns []net.Conn
	nCli := 1 + rng.Intn(3)
	rejectAt := rng.Intn(2 * nCli) // (half of the cases have no rejected client)
	for i := 0; i < nCli; i++ {
		if i == rejectAt && s.OnAcceptConnFunc != nil {
			// a client the accept callback turns away: it is closed by the server, and it keeps its own socket open
			// afterwards (a pooled connection nobody looks at) while the next clients connect and the server is stopped
			rejectNext.Store(true)
			rj, err := net.DialTimeout("tcp", addr.String(), 2*time.Second)
			if err != nil {
				r.Cover("tcp", "unavailable")
				return
			}
			_ = rj.SetReadDeadline(time.Now().Add(3 * time.Second))
			if _, err := rj.Read(make([]byte, 1)); err == nil || errors.Is(err, osErrDeadline) {
				r.Violate(c, "rejected-connection-not-closed", mon.Attrs{"where": "tcp"}, fmt.Sprintf("a TCP client the accept callback rejected saw no close within 3 s (read err %v)", err))
			}
			defer rj.Close()
			r.Cover("tcp", "rejected-client-keeps-socket")
		}
		cli, err := net.DialTimeout("tcp", addr.String(), 2*time.Second)
		if err != nil {
			r.Cover("tcp", "unavailable")
			return
		}
		conns = append(conns, cli)
		q := specref.Req{FC: 3, Unit: 1, TID: uint16(i + 1), Addr: uint16(rng.Intn(1000)), Qty: 2}
		cli.Write(q.Encode(specref.TCP))
		want := simdev.New(uint64(c.Seed), "srv").Handle(q).Encode(specref.TCP)
		if got, _ := srvx.ReadN(cli, len(want), 3*time.Second); !bytes.Equal(got, want) {
			r.Violate(c, "tcp-reply-wrong", mon.Attrs{}, fmt.Sprintf("got % x want % x", got, want))
		}
	}
	defer func() {
		for _, cn := range conns {
			cn.Close()
		}
	}()
	r.Eval(1)
	a := mon.Attrs{"terminal": c.Terminal}
	if c.Terminal == "tcp-cancel" {
		cancel()
	} else {
		sctx, sc := context.WithTimeout(context.Background(), 3*time.Second)
		err := s.Shutdown(sctx)
		sc()
		if err != nil {
			r.Cover("tcp", "shutdown-error")
			return
		}
	}
	select {
	case err := <-served:
		if !errors.Is(err, server.ErrServerClosed) {
			r.Violate(c, "serve-wrong-error-after-shutdown", a, fmt.Sprintf("ListenAndServe returned %v", err))
		}
	case <-time.After(3 * time.Second):
		// state witness: does the port still accept?
		kc, kerr := net.DialTimeout("tcp", addr.String(), time.Second)
		if kc != nil {
			kc.Close()
		}
		r.Violate(c, "serve-does-not-return", a, fmt.Sprintf("ListenAndServe had not returned 3 s after %s; a new dial to %s gave err=%v", c.Terminal, addr, kerr))
		return
	}
	if kc, err := net.DialTimeout("tcp", addr.String(), time.Second); err == nil {
		kc.Close()
		r.Violate(c, "accepts-after-shutdown", a, fmt.Sprintf("port %s still accepts connections after %s and the return of ListenAndServe", addr, c.Terminal))
	}
	for i, cn := range conns { // idle connections are closed by the server
		_ = cn.SetReadDeadline(time.Now().Add(2 * time.Second))
		if _, err := cn.Read(make([]byte, 1)); err == nil || errors.Is(err, osErrDeadline) {
			r.Violate(c, "connection-never-closed", a, fmt.Sprintf("idle TCP connection %d still open 2 s after %s (read err %v)", i, c.Terminal, err))
		}
	}
	r.Distinct(mon.Mix(0x7c9, mon.HashS(c.Terminal), uint64(c.Seed)))
	r.Cover("tcp", c.Terminal)
}

// runAtStart: Shutdown overlaps the start of Serve (called from inside OnServeFunc, or from another goroutine right
// away). If it returns nil the serve call must end with ErrServerClosed and nothing may be accepted afterwards.
func runAtStart(c *Case, r *mon.Rec, rng *rand.Rand) {
	l := srvx.NewMemListener()
	s := &server.Server{OnErrorFunc: func(error) {}, WriteTimeout: 2 * time.Second} // (the default 50 ms write timeout is scheduling noise on a loaded machine)
	dev := simdev.New(uint64(c.Seed), "srv")
	var shutErr error
	shutDone := make(chan struct{})
	doShutdown := func() {
		sctx, sc := context.WithTimeout(context.Background(), 3*time.Second)
		shutErr = s.Shutdown(sctx)
		sc()
		close(shutDone)
	}
	inCallback := c.Mask&1 != 0
	if inCallback {
		s.OnServeFunc = func(net.Addr) { doShutdown() }
	}
	ctx, cancel := context.WithCancel(context.Background())
	defer cancel()
	served := make(chan error, 1)
	before := !inCallback && rng.Intn(3) == 0
	if before {
		doShutdown() // Shutdown has returned before Serve is called at all: only Serve can close the listener it is given
		r.Cover("shutdown", "at-start-before-serve")
	}
	go func() { served <- s.Serve(ctx, l, srvx.DevHandler(dev, nil)) }()
	if !inCallback && !before {
		if d := rng.Intn(4); d > 0 {
			time.Sleep(time.Duration(d*30) * time.Microsecond)
		}
		go doShutdown()
	}
	select {
	case <-shutDone:
	case <-time.After(5 * time.Second):
		r.Violate(c, "shutdown-does-not-return", mon.Attrs{"at_start": true}, "Shutdown overlapping the start of Serve did not return within 5 s")
		return
	}
	r.Eval(1)
	r.Distinct(mon.Mix(0x5a7, uint64(c.Seed), b2u(inCallback)))
	r.Cover("terminal", c.Terminal)
	if shutErr != nil {
		r.Cover("shutdown", "at-start-error:"+shutErr.Error())
		return
	}
	a := mon.Attrs{"terminal": c.Terminal, "in_onserve": inCallback}
	select {
	case err := <-served:
		if !errors.Is(err, server.ErrServerClosed) {
			r.Violate(c, "serve-wrong-error-after-shutdown", a, fmt.Sprintf("Shutdown (overlapping the start of Serve) returned nil, Serve returned %v", err))
		}
	case <-time.After(2 * time.Second):
		// state witness: is the server still taking connections and answering?
		cli, _, derr := l.Dial(500 * time.Millisecond)
		answered := false
		if cli != nil {
			q := specref.Req{FC: 3, Unit: 1, TID: 7, Addr: 1, Qty: 1}
			cli.Write(q.Encode(specref.TCP))
			rep, _ := srvx.ReadN(cli, 11, time.Second)
			answered = len(rep) == 11
			cli.Close()
		}
		r.Violate(c, "serve-does-not-return", a, fmt.Sprintf("Shutdown (overlapping the start of Serve) returned nil but Serve was still running 2 s later; new connection: dial err=%v, request answered=%v; listener Close calls: %d", derr, answered, l.Closes.Load()))
		return
	}
	if cli, _, err := l.Dial(300 * time.Millisecond); err == nil {
		cli.Close()
		r.Violate(c, "accepts-after-shutdown", a, "a connection was accepted after Shutdown returned nil and Serve returned")
	}
	// whichever of the two got to the listener first, it is closed now (an open listener is a bound port: the kernel
	// keeps completing handshakes on it even though nobody calls Accept)
	r.Eval(1)
	if !l.Closed() {
		r.Violate(c, "listener-left-open-after-shutdown", a, fmt.Sprintf("Shutdown (overlapping the start of Serve) returned nil and Serve returned the server-closed error, but the listener was never closed (Close calls: %d)", l.Closes.Load()))
	}
}

// runLimiter: the two connection callbacks used together the way an admission limiter uses them: the accept callback
// takes a slot (and waits for one when none is free), the close callback - which takes a moment - gives it back. Both
// look at the server (Addr) while they run. One slot, three clients in a row: B waits in the accept callback until A has
// gone and A's close callback has run; C is dialled while B's close callback is still running.
// Oracles: B is admitted and answered once A is gone (the callbacks run outside whatever the server needs for cleaning
// up a connection); the counts told are exact: A 1, B 2 (A is certainly alive), C 1 (B's close callback had begun
// before C was dialled, so B is not a live connection any more).
func runLimiter(c *Case, r *mon.Rec, rng *rand.Rand) {
	l := srvx.NewMemListener()
	dev := simdev.New(uint64(c.Seed), "srv")
	slots := make(chan struct{}, 1)
	slow := time.Duration(60+rng.Intn(60)) * time.Millisecond
	var mu sync.Mutex
	var accepts []acceptEv
	var closes, closesDone []closeEv
	s := &server.Server{OnErrorFunc: func(error) {}, WriteTimeout: 2 * time.Second}
	s.OnAcceptConnFunc = func(ctx context.Context, remote net.Addr, count uint64) error {
		_ = s.Addr()
		e := acceptEv{entry: l.Clk.Tick(), remote: remote.String(), count: count}
		mu.Lock()
		accepts = append(accepts, e)
		mu.Unlock()
		select {
		case slots <- struct{}{}:
			return nil
		case <-ctx.Done():
			return ctx.Err()
		}
	}
	s.OnCloseConnFunc = func(ctx context.Context, remote net.Addr, isShutdown bool) {
		_ = s.Addr()
		e := closeEv{entry: l.Clk.Tick(), remote: remote.String(), shutdown: isShutdown}
		mu.Lock()
		closes = append(closes, e)
		mu.Unlock()
		time.Sleep(slow)
		select {
		case <-slots:
		default:
		}
		e.entry = l.Clk.Tick()
		mu.Lock()
		closesDone = append(closesDone, e)
		mu.Unlock()
	}
	ctx, cancel := context.WithCancel(context.Background())
	ret := make(chan error, 1)
	go func() { ret <- s.Serve(ctx, l, srvx.DevHandler(dev, nil)) }()
	defer func() {
		cancel()
		select {
		case <-ret:
		case <-time.After(3 * time.Second):
		}
	}()
	a := mon.Attrs{"terminal": c.Terminal}
	r.Eval(1)
	r.Cover("terminal", c.Terminal)
	refDev := simdev.New(uint64(c.Seed), "srv")
	type cres struct {
		cli   net.Conn
		rc    *srvx.RecConn
		reply []byte
		want  []byte
		err   error
	}
	exchange := func(i int, wait time.Duration) chan cres {
		ch := make(chan cres, 1)
		go func() {
			var x cres
			x.cli, x.rc, x.err = l.Dial(3 * time.Second)
			if x.err != nil {
				ch <- x
				return
			}
			q := specref.Req{FC: 3, Unit: uint8(1 + i), TID: uint16(100 + i), Addr: uint16(rng.Intn(60000)), Qty: uint16(1 + i)}
			x.want = refDev.Handle(q).Encode(specref.TCP)
			_ = x.cli.SetWriteDeadline(time.Now().Add(wait))
			if _, x.err = x.cli.Write(q.Encode(specref.TCP)); x.err == nil {
				x.reply, _ = srvx.ReadN(x.cli, len(x.want), wait)
			}
			ch <- x
		}()
		return ch
	}
	nAccepts := func() int { mu.Lock(); defer mu.Unlock(); return len(accepts) }
	nCloses := func() int { mu.Lock(); defer mu.Unlock(); return len(closes) }
	waitFor := func(f func() bool, d time.Duration) bool {
		for t := time.Now(); time.Since(t) < d; time.Sleep(200 * time.Microsecond) {
			if f() {
				return true
			}
		}
		return f()
	}
	xa := <-exchange(0, 3*time.Second)
	if xa.err != nil || !bytes.Equal(xa.reply, xa.want) {
		r.Inconclusive(fmt.Sprintf("limiter: first client not served: err=%v reply % x", xa.err, xa.reply))
		return
	}
	chB := exchange(1, 8*time.Second)
	if !waitFor(func() bool { return nAccepts() >= 2 }, 3*time.Second) {
		r.Inconclusive("limiter: the accept callback for the second client was not entered within 3 s")
		return
	}
	xa.cli.Close() // A goes away: its slot comes back through the close callback
	xb := <-chB
	mu.Lock()
	witness := fmt.Sprintf("server-side Close calls on A: %d, close callbacks begun: %d, finished: %d", xa.rc.ServerCloses(), len(closes), len(closesDone))
	mu.Unlock()
	r.Eval(1)
	if xb.err != nil || !bytes.Equal(xb.reply, xb.want) {
		r.Violate(c, "callbacks-block-connection-cleanup", a, fmt.Sprintf("one-slot admission limiter (accept callback waits for a slot, close callback frees it): client B was waiting in the accept callback, client A disconnected, and 8 s later B still had no answer (err=%v, %d reply bytes); %s", xb.err, len(xb.reply), witness))
		return
	}
	r.Cover("limiter", "second client admitted after the first one left")
	xb.cli.Close()
	if !waitFor(func() bool { return nCloses() >= 2 }, 3*time.Second) {
		r.Violate(c, "close-callback-missing", a, "limiter: client B disconnected, no close callback for it was entered within 3 s")
		return
	}
	xc := <-exchange(2, 8*time.Second) // dialled while B's close callback is still busy
	mu.Lock()
	acc := append([]acceptEv{}, accepts...)
	mu.Unlock()
	r.Eval(1)
	if xc.err != nil || !bytes.Equal(xc.reply, xc.want) {
		r.Violate(c, "callbacks-block-connection-cleanup", a, fmt.Sprintf("limiter: client C (dialled while B's close callback was running) had no answer after 8 s (err=%v, %d reply bytes)", xc.err, len(xc.reply)))
		return
	}
	xc.cli.Close()
	wantCounts := []uint64{1, 2, 1}
	for i, e := range acc {
		if i < 3 {
			r.Eval(1)
			if e.count != wantCounts[i] {
				r.Violate(c, "accept-count-wrong", mon.Attrs{"on_close": true, "direction": map[bool]string{true: "high", false: "low"}[e.count > wantCounts[i]]},
					fmt.Sprintf("limiter: accept callback %d (%s) was told %d live connections, true count %d (A alone; B while A is alive; C after A has gone and B's close callback had begun before C was dialled)", i+1, e.remote, e.count, wantCounts[i]))
			}
		}
	}
	r.Distinct(mon.Mix(0x11a7, uint64(c.Seed)))
	sctx, scancel := context.WithTimeout(context.Background(), 3*time.Second)
	_ = s.Shutdown(sctx)
	scancel()
}

// runDrain: Shutdown has to wait for a handler (blocked until the harness releases it). While it waits, a new client
// dials; on odd masks a second Shutdown call (a signal handler and a deferred clean-up both shutting down) overlaps the
// first. Oracles once the first Shutdown has returned nil: Serve has returned the server-closed error; the reply owed to
// the blocked request was written before the return; the client that arrived during the wait was either refused or its
// connection has been closed by the server - it is not served afterwards; neither call crashes or blocks for ever.
func runDrain(c *Case, r *mon.Rec, rng *rand.Rand) {
	dev := simdev.New(uint64(c.Seed), "srv")
	release := make(chan struct{})
	started := make(chan struct{}, 1)
	devH := srvx.DevHandler(dev, nil)
	h := srvx.HandlerFunc(func(ctx context.Context, req packet.Request) (packet.Response, error) {
		if b := req.Bytes(); b[0] == 0 && b[1] == 7 {
			started <- struct{}{}
			<-release
			// a handler that respects its context, as one that forwards the request downstream does: a graceful Shutdown
			// waits for it - it does not take its context away (nobody cancels the serve context in this scenario)
			if e := ctx.Err(); e != nil {
				return nil, fmt.Errorf("verif handler: context ended while Shutdown was waiting for this handler: %w", e)
			}
		}
		return devH.Handle(ctx, req)
	})
	s := &server.Server{OnErrorFunc: func(error) {}, WriteTimeout: 2 * time.Second}
	l := srvx.NewMemListener()
	ctx, cancel := context.WithCancel(context.Background())
	ret := make(chan error, 1)
	go func() { ret <- s.Serve(ctx, l, h) }()
	released := false
	defer func() {
		if !released {
			close(release)
		}
		cancel()
	}()
	a := mon.Attrs{"terminal": c.Terminal, "overlapping_shutdowns": c.Mask&1 == 1}
	r.Eval(1)
	r.Cover("terminal", c.Terminal)
	cliA, rcA, err := l.Dial(2 * time.Second)
	if err != nil {
		r.Inconclusive("drain: cannot connect: " + err.Error())
		return
	}
	defer cliA.Close()
	qA := specref.Req{FC: 3, Unit: 1, TID: 7, Addr: uint16(rng.Intn(60000)), Qty: uint16(1 + rng.Intn(20))}
	refDev := simdev.New(uint64(c.Seed), "srv")
	wantA := refDev.Handle(qA).Encode(specref.TCP)
	_ = cliA.SetWriteDeadline(time.Now().Add(2 * time.Second))
	if _, err := cliA.Write(qA.Encode(specref.TCP)); err != nil {
		r.Inconclusive("drain: write: " + err.Error())
		return
	}
	select {
	case <-started:
	case <-time.After(3 * time.Second):
		r.Inconclusive("drain: handler did not start")
		return
	}
	gotA := make(chan []byte, 1)
	go func() {
		b, _ := srvx.ReadN(cliA, len(wantA), 6*time.Second)
		gotA <- b
	}()
	type shutRes struct {
		err error
		ret int64
	}
	shut := func(ch chan shutRes) {
		sctx, sc := context.WithTimeout(context.Background(), 4*time.Second)
		defer sc()
		e := s.Shutdown(sctx)
		ch <- shutRes{e, l.Clk.Tick()}
	}
	ch1, ch2 := make(chan shutRes, 1), make(chan shutRes, 1)
	go shut(ch1)
	if c.Mask&1 == 1 {
		time.Sleep(time.Duration(rng.Intn(3000)) * time.Microsecond)
		go shut(ch2)
	}
	time.Sleep(time.Duration(30+rng.Intn(40)) * time.Millisecond) // both calls are now waiting for the handler
	qD := specref.Req{FC: 3, Unit: 9, TID: 99, Addr: 5, Qty: 2}
	wantD := refDev.Handle(qD).Encode(specref.TCP)
	cliD, rcD, errD := l.Dial(300 * time.Millisecond)
	gotD := make(chan []byte, 1)
	if errD == nil {
		defer cliD.Close()
		go func() {
			_ = cliD.SetWriteDeadline(time.Now().Add(5 * time.Second))
			if _, e := cliD.Write(qD.Encode(specref.TCP)); e != nil {
				gotD <- nil
				return
			}
			b, _ := srvx.ReadN(cliD, len(wantD), 3*time.Second)
			gotD <- b
		}()
		r.Cover("drain", "a client was accepted while Shutdown was waiting")
	} else {
		r.Cover("drain", "a client dialling while Shutdown was waiting was refused")
	}
	time.Sleep(time.Duration(10+rng.Intn(30)) * time.Millisecond)
	close(release)
	released = true
	var r1 shutRes
	select {
	case r1 = <-ch1:
	case <-time.After(7 * time.Second):
		r.Violate(c, "shutdown-does-not-return", mon.Attrs{"drain": true}, "drain: Shutdown did not return within 7 s after the blocked handler was released")
		return
	}
	if c.Mask&1 == 1 {
		select {
		case r2 := <-ch2:
			r.Cover("drain", fmt.Sprintf("second overlapping Shutdown returned %v", r2.err))
		case <-time.After(7 * time.Second):
			r.Violate(c, "shutdown-does-not-return", mon.Attrs{"drain": true, "second_call": true}, "drain: the second of two overlapping Shutdown calls did not return within 7 s")
			return
		}
	}
	replyA := <-gotA
	r.Distinct(mon.Mix(0xd7a1, uint64(c.Seed)))
	if r1.err != nil {
		r.Cover("shutdown", "drain-error:"+r1.err.Error())
		return
	}
	select {
	case e := <-ret:
		if !errors.Is(e, server.ErrServerClosed) {
			r.Violate(c, "serve-wrong-error-after-shutdown", a, fmt.Sprintf("drain: Shutdown returned nil, Serve returned %v", e))
		}
	case <-time.After(2 * time.Second):
		r.Violate(c, "serve-does-not-return", a, "drain: Shutdown returned nil, Serve had not returned 2 s later")
		return
	}
	written := 0
	for _, e := range rcA.EventsCopy() {
		if e.Op == "write" && e.Seq < r1.ret {
			written += e.N
		}
	}
	r.Eval(2)
	if written < len(wantA) {
		r.Violate(c, "inflight-reply-after-shutdown-returned", a, fmt.Sprintf("drain: Shutdown returned nil when %d of the %d reply bytes owed to the blocked request had been written (client finally got %d bytes)", written, len(wantA), len(replyA)))
	} else if !bytes.Equal(replyA, wantA) {
		r.Violate(c, "inflight-reply-lost", a, fmt.Sprintf("drain: reply written (%d bytes) but the client received % x, want % x", written, replyA, wantA))
	}
	if errD == nil {
		rep := <-gotD
		closed := false
		for t := time.Now(); time.Since(t) < 2*time.Second; time.Sleep(time.Millisecond) {
			if rcD.ServerCloses() > 0 {
				closed = true
				break
			}
		}
		if len(rep) == len(wantD) || !closed {
			r.Violate(c, "connection-survives-shutdown", a, fmt.Sprintf("drain: a client connected while Shutdown was waiting for a handler; Shutdown returned nil and Serve returned, after which that connection was answered: %v (%d reply bytes), closed by the server: %v", len(rep) == len(wantD), len(rep), closed))
		}
	}
	if kc, _, e := l.Dial(300 * time.Millisecond); e == nil {
		kc.Close()
		r.Violate(c, "accepts-after-shutdown", a, "drain: a new connection was accepted after Shutdown returned nil")
	}
}

// runHandover: a listener hand-over without downtime: the same Server value starts serving a second listener while the
// first serve call is still running; then the first one is ended through its context; then Shutdown. After Shutdown
// returned nil the second serve call, too, has returned the server-closed error, its listener is closed and nothing is
// accepted or answered any more.
func runHandover(c *Case, r *mon.Rec, rng *rand.Rand) {
	dev := simdev.New(uint64(c.Seed), "srv")
	refDev := simdev.New(uint64(c.Seed), "srv")
	s := &server.Server{OnErrorFunc: func(error) {}, WriteTimeout: 2 * time.Second}
	h := srvx.DevHandler(dev, nil)
	l1, l2 := srvx.NewMemListener(), srvx.NewMemListener()
	ctx1, cancel1 := context.WithCancel(context.Background())
	ctx2, cancel2 := context.WithCancel(context.Background())
	defer cancel1()
	defer cancel2()
	ret1, ret2 := make(chan error, 1), make(chan error, 1)
	a := mon.Attrs{"terminal": c.Terminal}
	r.Eval(1)
	r.Cover("terminal", c.Terminal)
	ask := func(l *srvx.MemListener, tid uint16) (bool, net.Conn) {
		cli, _, err := l.Dial(time.Second)
		if err != nil {
			return false, nil
		}
		q := specref.Req{FC: 3, Unit: 1, TID: tid, Addr: uint16(rng.Intn(60000)), Qty: uint16(1 + rng.Intn(10))}
		want := refDev.Handle(q).Encode(specref.TCP)
		_ = cli.SetWriteDeadline(time.Now().Add(time.Second))
		if _, err := cli.Write(q.Encode(specref.TCP)); err != nil {
			cli.Close()
			return false, nil
		}
		got, _ := srvx.ReadN(cli, len(want), 2*time.Second)
		return bytes.Equal(got, want), cli
	}
	go func() { ret1 <- s.Serve(ctx1, l1, h) }()
	ok1, cliA := ask(l1, 1)
	if cliA != nil {
		defer cliA.Close()
	}
	if !ok1 {
		r.Inconclusive("handover: the first serve call does not answer")
		return
	}
	go func() { ret2 <- s.Serve(ctx2, l2, h) }()
	ok2, cliB := ask(l2, 2)
	if cliB != nil {
		defer cliB.Close()
	}
	if !ok2 {
		select {
		case e := <-ret2:
			r.Cover("handover", fmt.Sprintf("second overlapping serve call refused: %v", e)) // not supported: nothing to check
		default:
			r.Cover("handover", "second overlapping serve call does not answer")
		}
		return
	}
	r.Cover("handover", "two serve calls of one Server answer at the same time")
	time.Sleep(time.Duration(rng.Intn(3000)) * time.Microsecond)
	cancel1()
	select {
	case <-ret1:
	case <-time.After(3 * time.Second):
		r.Violate(c, "serve-does-not-return", a, "handover: the first serve call had not returned 3 s after its context was cancelled")
		return
	}
	// the second listener still serves
	ok3, cliC := ask(l2, 3)
	if cliC != nil {
		defer cliC.Close()
	}
	if !ok3 {
		r.Cover("handover", "the second serve call stopped answering when the first one ended")
		return
	}
	sctx, sc := context.WithTimeout(context.Background(), 3*time.Second)
	shutErr := s.Shutdown(sctx)
	sc()
	r.Distinct(mon.Mix(0x4a0d, uint64(c.Seed)))
	if shutErr != nil {
		r.Cover("shutdown", "handover-error:"+shutErr.Error())
		return
	}
	r.Eval(2)
	select {
	case e := <-ret2:
		if !errors.Is(e, server.ErrServerClosed) {
			r.Violate(c, "serve-wrong-error-after-shutdown", a, fmt.Sprintf("handover: Shutdown returned nil, the second serve call returned %v", e))
		}
	case <-time.After(2 * time.Second):
		okLate, cliD := ask(l2, 4)
		if cliD != nil {
			cliD.Close()
		}
		r.Violate(c, "serve-does-not-return", a, fmt.Sprintf("handover: Shutdown returned nil but the serve call on the second listener was still running 2 s later (listener Close calls: %d; a new request on it was answered: %v)", l2.Closes.Load(), okLate))
		return
	}
	if okLate, cliD := ask(l2, 5); okLate || cliD != nil {
		if cliD != nil {
			cliD.Close()
		}
		r.Violate(c, "accepts-after-shutdown", a, "handover: a connection to the second listener was accepted after Shutdown returned nil")
	}
	if !l2.Closed() {
		r.Violate(c, "listener-left-open-after-shutdown", a, "handover: Shutdown returned nil and both serve calls returned, the second listener was never closed")
	}
}

// runRestart: the same Server value serves twice. The first serve call ends by context cancellation while one request is
// still in its handler; a second serve call (new listener) follows; then Shutdown. What the server knows about the
// connection from the first serve call must survive the second one: Shutdown may return nil only after the reply owed to
// that request has been written.
func runRestart(c *Case, r *mon.Rec, rng *rand.Rand) {
	dev := simdev.New(uint64(c.Seed), "srv")
	release := make(chan struct{})
	started := make(chan struct{}, 1)
	devH := srvx.DevHandler(dev, nil)
	h := srvx.HandlerFunc(func(ctx context.Context, req packet.Request) (packet.Response, error) {
		if b := req.Bytes(); b[0] == 0 && b[1] == 7 {
			started <- struct{}{}
			<-release
		}
		return devH.Handle(ctx, req)
	})
	s := &server.Server{OnErrorFunc: func(error) {}, WriteTimeout: 2 * time.Second} // (the default 50 ms write timeout is scheduling noise on a loaded machine)
	l1 := srvx.NewMemListener()
	ctx1, cancel1 := context.WithCancel(context.Background())
	ret1 := make(chan error, 1)
	go func() { ret1 <- s.Serve(ctx1, l1, h) }()
	released := false
	defer func() {
		if !released {
			close(release)
		}
		cancel1()
	}()
	a := mon.Attrs{"terminal": c.Terminal}
	r.Eval(1)
	r.Cover("terminal", c.Terminal)
	cliA, rcA, err := l1.Dial(2 * time.Second)
	if err != nil {
		r.Inconclusive("restart: cannot connect: " + err.Error())
		return
	}
	defer cliA.Close()
	qA := specref.Req{FC: 3, Unit: 1, TID: 7, Addr: uint16(rng.Intn(60000)), Qty: uint16(1 + rng.Intn(20))}
	wantA := simdev.New(uint64(c.Seed), "srv").Handle(qA).Encode(specref.TCP)
	_ = cliA.SetWriteDeadline(time.Now().Add(2 * time.Second))
	if _, err := cliA.Write(qA.Encode(specref.TCP)); err != nil {
		r.Inconclusive("restart: write: " + err.Error())
		return
	}
	select {
	case <-started:
	case <-time.After(3 * time.Second):
		r.Inconclusive("restart: handler did not start")
		return
	}
	cancel1()
	select {
	case <-ret1:
	case <-time.After(3 * time.Second):
		r.Violate(c, "serve-does-not-return", a, "restart: the first serve call had not returned 3 s after its context was cancelled")
		return
	}
	// second serve call on the same Server
	l2 := srvx.NewMemListener()
	ctx2, cancel2 := context.WithCancel(context.Background())
	defer cancel2()
	ret2 := make(chan error, 1)
	go func() { ret2 <- s.Serve(ctx2, l2, h) }()
	cliB, _, err := l2.Dial(2 * time.Second)
	if err != nil {
		select {
		case e := <-ret2:
			r.Cover("restart", fmt.Sprintf("second serve call refused: %v", e)) // reuse not supported: nothing to check
		default:
			r.Cover("restart", "second serve call accepts nothing")
		}
		return
	}
	defer cliB.Close()
	qB := specref.Req{FC: 3, Unit: 2, TID: 8, Addr: 5, Qty: 2}
	_ = cliB.SetWriteDeadline(time.Now().Add(2 * time.Second))
	_, _ = cliB.Write(qB.Encode(specref.TCP))
	wantB := simdev.New(uint64(c.Seed), "srv").Handle(qB).Encode(specref.TCP)
	if got, _ := srvx.ReadN(cliB, len(wantB), 2*time.Second); !bytes.Equal(got, wantB) {
		r.Cover("restart", "second serve call does not answer")
		return
	}
	r.Cover("restart", "second serve call answers")
	gotA := make(chan []byte, 1)
	go func() {
		b, _ := srvx.ReadN(cliA, len(wantA), 4*time.Second)
		gotA <- b
	}()
	if c.Mask&1 == 1 {
		// a first Shutdown that gives up after 50 ms (the handler is still blocked); the application then tries again
		// with more patience - that second call has to do the waiting the first one could not finish
		sctx0, sc0 := context.WithTimeout(context.Background(), 50*time.Millisecond)
		e0 := s.Shutdown(sctx0)
		sc0()
		r.Cover("shutdown", fmt.Sprintf("first-attempt-before-retry: %v", e0))
		r.Eval(1)
		if e0 == nil {
			// the handler is still blocked (the harness has not released it): a Shutdown that ran out of time under it has
			// not shut anything down gracefully and must not say so
			w0 := 0
			for _, e := range rcA.EventsCopy() {
				if e.Op == "write" {
					w0 += e.N
				}
			}
			r.Violate(c, "inflight-reply-after-shutdown-returned", a, fmt.Sprintf("restart: Shutdown with a 50 ms deadline returned nil while the handler of a started request was still blocked (%d of the %d reply bytes written)", w0, len(wantA)))
			return
		}
	}
	var shutErr error
	var shutRet int64
	shutDone := make(chan struct{})
	go func() {
		sctx, sc := context.WithTimeout(context.Background(), 3*time.Second)
		shutErr = s.Shutdown(sctx)
		shutRet = l1.Clk.Tick()
		sc()
		close(shutDone)
	}()
	time.Sleep(time.Duration(20+rng.Intn(100)) * time.Millisecond)
	close(release)
	released = true
	select {
	case <-shutDone:
	case <-time.After(6 * time.Second):
		r.Violate(c, "shutdown-does-not-return", mon.Attrs{"restart": true}, "Shutdown after a restart did not return within 6 s")
		return
	}
	replyA := <-gotA
	r.Distinct(mon.Mix(0x7e57, uint64(c.Seed)))
	if shutErr != nil {
		r.Cover("shutdown", "restart-error:"+shutErr.Error())
		return
	}
	written := 0
	for _, e := range rcA.EventsCopy() {
		if e.Op == "write" && e.Seq < shutRet {
			written += e.N
		}
	}
	r.Eval(1)
	if written < len(wantA) {
		r.Violate(c, "inflight-reply-after-shutdown-returned", a, fmt.Sprintf("restart: the handler of a request received during the first serve call was still running when Shutdown was called; Shutdown returned nil when %d of the %d reply bytes had been written (client finally got %d bytes)", written, len(wantA), len(replyA)))
	} else if !bytes.Equal(replyA, wantA) {
		r.Violate(c, "inflight-reply-lost", a, fmt.Sprintf("restart: reply written (%d bytes) but the client received % x, want % x", written, replyA, wantA))
	}
	// Shutdown once more on the stopped server, and on a Server value that never served: neither crashes nor blocks
	for i, sv := range []*server.Server{s, {OnErrorFunc: func(error) {}}} {
		done := make(chan string, 1)
		go func() {
			_, txt := mon.Catch(func() {
				sctx, sc := context.WithTimeout(context.Background(), time.Second)
				defer sc()
				_ = sv.Shutdown(sctx)
			})
			done <- txt
		}()
		r.Eval(1)
		select {
		case txt := <-done:
			if txt != "" {
				r.Violate(c, "shutdown-panics", mon.Attrs{"which": []string{"second-shutdown", "never-served"}[i]}, txt)
			}
		case <-time.After(4 * time.Second):
			r.Violate(c, "shutdown-does-not-return", mon.Attrs{"which": []string{"second-shutdown", "never-served"}[i]}, "Shutdown with a 1 s context had not returned after 4 s")
		}
	}
}

func b2u(b bool) uint64 {
	if b {
		return 1
	}
	return 0
}

func run(ci any, r *mon.Rec) {
	c := ci.(*Case)
	rng := rand.New(rand.NewSource(c.Seed))
	if c.Terminal == "tcp-shutdown" || c.Terminal == "tcp-cancel" {
		runTCP(c, r, rng)
		return
	}
	if c.Terminal == "shutdown-at-start" {
		runAtStart(c, r, rng)
		return
	}
	if c.Terminal == "restart" {
		runRestart(c, r, rng)
		return
	}
	if c.Terminal == "limiter" {
		runLimiter(c, r, rng)
		return
	}
	if c.Terminal == "drain" {
		runDrain(c, r, rng)
		return
	}
	if c.Terminal == "handover" {
		runHandover(c, r, rng)
		return
	}
	sc := &scenario{c: c, r: r, l: srvx.NewMemListener(), hstart: map[uint16]int64{}, hend: map[uint16]int64{}, rejected: map[string]bool{}, inflight: make(chan struct{}, 64), hdone: make(chan struct{}, 64), inAccept: make(chan struct{}, 1)}
	sc.clk = sc.l.Clk
	a := mon.Attrs{"mask": c.Mask, "terminal": c.Terminal}
	ctxs := fmt.Sprintf("callbacks{serve:%v error:%v accept:%v close:%v} %d clients terminal=%s yield=%v handler-delay=%d", c.Mask&1 != 0, c.Mask&2 != 0, c.Mask&4 != 0, c.Mask&8 != 0, c.K, c.Terminal, c.Yield, c.HDelay)

	// which clients will be rejected by the accept callback
	for i := 0; i < c.K; i++ {
		if c.Mask&4 != 0 && rng.Intn(4) == 0 {
			sc.rejected[fmt.Sprintf("client-%d", i)] = true
		}
	}
	if c.InAccept > 0 && c.Seed%2 == 0 {
		sc.rejected[fmt.Sprintf("client-%d", c.InAccept-1)] = true
	}
	s := &server.Server{WriteTimeout: 2 * time.Second} // (the default 50 ms write timeout is scheduling noise on a loaded machine)
	if c.Mask&1 != 0 {
		s.OnServeFunc = func(addr net.Addr) { _ = addr.String() }
	}
	var serverErrs atomic.Int64
	if c.Mask&2 != 0 {
		s.OnErrorFunc = func(err error) { serverErrs.Add(1) }
	}
	if c.Mask&4 != 0 {
		s.OnAcceptConnFunc = func(ctx context.Context, remote net.Addr, count uint64) error {
			_ = s.Addr() // a callback may look at the server it belongs to
			e := acceptEv{entry: sc.clk.Tick(), remote: remote.String(), count: count}
			sc.mu.Lock()
			e.rejected = sc.rejected[e.remote]
			sc.accepts = append(sc.accepts, e)
			nth := len(sc.accepts)
			sc.mu.Unlock()
			if c.InAccept > 0 && nth == c.InAccept {
				select {
				case sc.inAccept <- struct{}{}:
				default:
				}
			}
			if e.rejected {
				if c.InAccept > 0 && nth == c.InAccept {
					// the callback that was running when the context ended refuses its connection because of that (a
					// callback doing a lookup under the serve context returns ctx.Err()): rejected is rejected - closed
					select {
					case <-ctx.Done():
						return ctx.Err()
					case <-time.After(2 * time.Second):
					}
				}
				return errors.New("verif: rejected by accept callback")
			}
			if c.Terminal == "cancel" || c.Terminal == "both" {
				// an accept callback that takes a moment (a lookup, a log line): the context may end while it runs - a
				// connection it then approves is still a connection the close callback will hear about
				time.Sleep(time.Duration(200+int(e.entry%7)*300) * time.Microsecond)
			}
			return nil
		}
	}
	if c.Mask&8 != 0 {
		s.OnCloseConnFunc = func(ctx context.Context, remote net.Addr, isShutdown bool) {
			e := closeEv{entry: sc.clk.Tick(), remote: remote.String(), shutdown: isShutdown}
			sc.mu.Lock()
			sc.closes = append(sc.closes, e)
			sc.mu.Unlock()
			if c.Seed%2 == 0 {
				// a close callback that takes a moment (a log line, a metrics update): the connection it is told about is
				// not a live connection any more while it runs
				_ = s.Addr()
				time.Sleep(time.Duration(1+e.entry%3) * time.Millisecond)
			}
		}
	}
	// yield hook
	var ymu sync.Mutex
	yrng := rand.New(rand.NewSource(c.Seed ^ 0x79))
	// the hook always records when the accept loop is about to track a connection ("accept.tracked" is reached exactly by
	// the connections the server starts serving); it delays only when c.Yield is set
	var trackedStamps []int64
	f := func(name string) {
		if name == "accept.tracked" {
			st := sc.clk.Tick()
			ymu.Lock()
			trackedStamps = append(trackedStamps, st)
			ymu.Unlock()
		}
		if !c.Yield {
			return
		}
		ymu.Lock()
		d := yrng.Intn(5)
		ymu.Unlock()
		switch {
		case d == 0:
			time.Sleep(time.Duration(100+50*len(name)) * time.Microsecond)
		case d < 3:
			time.Sleep(20 * time.Microsecond)
		}
	}
	server.VerifYield.Store(&f)
	if c.Yield {
		sc.l.ConnYield = f
	}
	defer server.VerifYield.Store(nil)

	dev := simdev.New(uint64(c.Seed), "srv")
	devH := srvx.DevHandler(dev, nil)
	hrng := rand.New(rand.NewSource(c.Seed ^ 0x33))
	handler := srvx.HandlerFunc(func(ctx context.Context, req packet.Request) (packet.Response, error) {
		b := req.Bytes()
		tid := uint16(b[0])<<8 | uint16(b[1])
		st := sc.clk.Tick()
		sc.mu.Lock()
		sc.hstart[tid] = st
		d := 1 + hrng.Intn(5)
		sc.mu.Unlock()
		select {
		case sc.inflight <- struct{}{}:
		default:
		}
		switch c.HDelay {
		case 1:
			time.Sleep(50 * time.Microsecond)
		case 2:
			time.Sleep(time.Duration(d) * time.Millisecond)
		}
		resp, err := devH.Handle(ctx, req)
		en := sc.clk.Tick()
		sc.mu.Lock()
		sc.hend[tid] = en
		sc.mu.Unlock()
		select {
		case sc.hdone <- struct{}{}:
		default:
		}
		return resp, err
	})

	ctx, cancel := context.WithCancel(context.Background())
	defer cancel()
	serveRet := make(chan error, 1)
	var serveStamp atomic.Int64
	go func() {
		err := s.Serve(ctx, sc.l, handler)
		serveStamp.Store(sc.clk.Tick())
		serveRet <- err
	}()

	// ---- clients ----
	var wg sync.WaitGroup
	stay := make(chan struct{})
	type cliRes struct {
		id       int
		rc       *srvx.RecConn
		rejected bool
		gotEOF   bool
		dialErr  error
	}
	results := make([]cliRes, c.K)
	plans := make([]struct {
		delay   time.Duration
		nreq    int
		idle    time.Duration
		staysOn bool
		frames  [][]byte
		replies [][]byte
	}, c.K)
	refDev := simdev.New(uint64(c.Seed), "srv")
	for i := 0; i < c.K; i++ {
		plans[i].delay = time.Duration(rng.Intn(3000)) * time.Microsecond
		plans[i].nreq = 1 + rng.Intn(3)
		plans[i].idle = time.Duration(rng.Intn(2000)) * time.Microsecond
		plans[i].staysOn = rng.Intn(2) == 0
		for k := 0; k < plans[i].nreq; k++ {
			q := specref.Req{FC: 3, Unit: uint8(1 + i), TID: uint16(i*100 + k + 1), Addr: uint16(rng.Intn(60000)), Qty: uint16(1 + rng.Intn(20))}
			plans[i].frames = append(plans[i].frames, q.Encode(specref.TCP))
			plans[i].replies = append(plans[i].replies, refDev.Handle(q).Encode(specref.TCP))
		}
	}
	// dial order is serialised so that "client-i" is the i-th connection the listener hands out
	dialMu := make(chan struct{}, 1)
	dialMu <- struct{}{}
	next := 0
	order := rng.Perm(c.K)
	_ = order
	for i := 0; i < c.K; i++ {
		wg.Add(1)
		go func(i int) {
			defer wg.Done()
			p := plans[i]
			time.Sleep(p.delay)
			<-dialMu
			id := next
			next++
			cli, rc, err := sc.l.Dial(2 * time.Second)
			dialMu <- struct{}{}
			res := cliRes{id: id, rc: rc, dialErr: err}
			defer func() { results[i] = res }()
			if err != nil {
				return
			}
			defer cli.Close()
			remote := fmt.Sprintf("client-%d", id)
			sc.mu.Lock()
			res.rejected = sc.rejected[remote]
			sc.mu.Unlock()
			if res.rejected {
				_ = cli.SetReadDeadline(time.Now().Add(2 * time.Second))
				_, rerr := cli.Read(make([]byte, 1))
				res.gotEOF = rerr != nil && !errors.Is(rerr, errDeadline())
				return
			}
			for k := 0; k < p.nreq; k++ {
				rr := &reqRec{tid: uint16(i*100 + k + 1), client: id}
				sc.mu.Lock()
				sc.reqs = append(sc.reqs, rr)
				sc.mu.Unlock()
				_ = cli.SetWriteDeadline(time.Now().Add(2 * time.Second))
				if _, err := cli.Write(p.frames[k]); err != nil {
					rr.err = "write: " + err.Error()
					return
				}
				rr.sent = true
				got, rerr := srvx.ReadN(cli, len(p.replies[k]), 3*time.Second)
				if bytes.Equal(got, p.replies[k]) {
					rr.complete = true
					sc.done.Add(1)
				} else {
					rr.err = fmt.Sprintf("got %d of %d reply bytes (% x): %v", len(got), len(p.replies[k]), got, rerr)
					return
				}
				time.Sleep(p.idle)
			}
			if p.staysOn {
				<-stay // keeps the connection open until the terminal action is over
			}
		}(i)
	}

	// ---- terminal action ----
	total := 0
	for i := range plans {
		total += plans[i].nreq
	}
	trigger := int64(rng.Intn(total + 1))
	waitUntil := time.Now().Add(1500 * time.Millisecond)
	if c.Terminal == "shutdown-inflight" {
		select {
		case <-sc.inflight:
		case <-time.After(1500 * time.Millisecond):
		}
	} else if c.InAccept > 0 {
		// cancel as soon as the chosen accept callback has been entered (it takes at least 200 us)
		select {
		case <-sc.inAccept:
		case <-time.After(1500 * time.Millisecond):
		}
	} else if c.Terminal == "shutdown-replying" {
		// a handler has just returned: its reply is being written (or about to be)
		select {
		case <-sc.hdone:
		case <-time.After(1500 * time.Millisecond):
		}
	} else {
		for sc.done.Load() < trigger && time.Now().Before(waitUntil) {
			time.Sleep(200 * time.Microsecond)
		}
	}
	var shutCall, shutRet, cancelStamp int64
	var shutErr error
	didShutdown := c.Terminal != "cancel"
	if c.Terminal == "both" && rng.Intn(2) == 0 {
		cancelStamp = sc.clk.Tick()
		cancel()
	}
	if didShutdown {
		sctx, scancel := context.WithTimeout(context.Background(), 3*time.Second)
		shutCall = sc.clk.Tick()
		shutErr = s.Shutdown(sctx)
		shutRet = sc.clk.Tick()
		scancel()
	}
	if c.Terminal == "cancel" || (c.Terminal == "both" && cancelStamp == 0) {
		cancelStamp = sc.clk.Tick()
		cancel()
	}
	r.Eval(1)

	// ---- Serve must return ----
	var serveErr error
	served := false
	select {
	case serveErr = <-serveRet:
		served = true
	case <-time.After(2 * time.Second):
	}
	kicked := false
	if !served {
		// state witness: has the listener been closed at all? then make one more connection ("kick")
		closedBefore := sc.l.Closed()
		kc, _, kerr := sc.l.Dial(500 * time.Millisecond)
		if kc != nil {
			kc.Close()
		}
		kicked = true
		select {
		case serveErr = <-serveRet:
			served = true
			a2 := mon.Attrs{"terminal": c.Terminal, "listener_closed_before_kick": closedBefore}
			r.Violate(c, "serve-returns-only-after-next-accept", a2, fmt.Sprintf("%s: 2 s after the terminal action Serve had not returned (listener Close calls so far: %d); it returned (%v) only after one more connection was made (dial err: %v)", ctxs, sc.l.Closes.Load(), serveErr, kerr))
		case <-time.After(2 * time.Second):
			r.Violate(c, "serve-does-not-return", mon.Attrs{"terminal": c.Terminal}, fmt.Sprintf("%s: Serve did not return within 4 s after the terminal action, not even after one more connection", ctxs))
		}
	}
	close(stay)
	cancel()
	wg.Wait()
	if !served {
		select {
		case serveErr = <-serveRet:
			served = true
		case <-time.After(2 * time.Second):
		}
	}

	// ---- shutdown clauses ----
	if didShutdown && shutErr == nil {
		if served && !kicked && !errors.Is(serveErr, server.ErrServerClosed) {
			r.Violate(c, "serve-wrong-error-after-shutdown", a, fmt.Sprintf("%s: Shutdown returned nil, Serve returned %v", ctxs, serveErr))
		}
		if kc, _, err := sc.l.Dial(300 * time.Millisecond); err == nil {
			kc.Close()
			r.Violate(c, "accepts-after-shutdown", a, ctxs+": a new connection was accepted after Shutdown returned nil")
		} else if served && !sc.l.Closed() {
			r.Violate(c, "listener-left-open-after-shutdown", a, ctxs+": Shutdown returned nil and Serve returned, but the listener was never closed")
		}
		sc.mu.Lock()
		for _, rr := range sc.reqs {
			st, started := sc.hstart[rr.tid]
			if !started || rr.complete {
				continue
			}
			switch {
			case st < shutCall:
				r.Violate(c, "inflight-reply-lost", a, fmt.Sprintf("%s: request tid %d: handler started (stamp %d) before Shutdown was called (stamp %d), Shutdown returned nil (stamp %d) but the client did not get its reply: %s", ctxs, rr.tid, st, shutCall, shutRet, rr.err))
			case st < shutRet:
				r.Violate(c, "inflight-toctou", mon.Attrs{"terminal": c.Terminal, "yield": c.Yield}, fmt.Sprintf("%s: request tid %d: handler started (stamp %d) after Shutdown was called (%d) and before it returned nil (%d); the connection was closed under it: %s", ctxs, rr.tid, st, shutCall, shutRet, rr.err))
			}
		}
		// ... and had received it by the time Shutdown returned: the server-side write of the whole reply is stamped
		// before the return of Shutdown (writes are synchronous on this transport, so written = received)
		for i := range plans {
			rc := results[i].rc
			if rc == nil || results[i].rejected {
				continue
			}
			owed, last := 0, -1
			for k := 0; k < plans[i].nreq; k++ {
				if st, ok := sc.hstart[uint16(i*100+k+1)]; ok && st < shutCall {
					last = k
				}
			}
			for k := 0; k <= last; k++ {
				owed += len(plans[i].replies[k])
			}
			written := 0
			for _, e := range rc.EventsCopy() {
				if e.Op == "write" && e.Seq < shutRet {
					written += e.N
				}
			}
			r.Eval(1)
			if written < owed {
				r.Violate(c, "inflight-reply-after-shutdown-returned", a, fmt.Sprintf("%s: client %d: handler of request %d started (stamp %d) before Shutdown was called (%d); when Shutdown returned nil (%d) the server had written %d of the %d reply bytes owed on that connection", ctxs, i, last, sc.hstart[uint16(i*100+last+1)], shutCall, shutRet, written, owed))
			} else if last >= 0 {
				r.Cover("shutdown", "owed-replies-written-before-return")
			}
		}
		sc.mu.Unlock()
	} else if didShutdown && shutErr != nil {
		r.Cover("shutdown", "error:"+shutErr.Error())
	}

	// ---- quiescence: every accepted connection cleaned up ----
	accepted := map[string]*srvx.RecConn{}
	var lateConns []*srvx.RecConn
	sc.l.Conns = append([]*srvx.RecConn(nil), sc.l.Conns...)
	for _, rc := range sc.l.Conns {
		if rc.AcceptSeq.Load() == 0 {
			continue
		}
		if sc.rejected[rc.RemoteAddr().String()] {
			continue
		}
		// "accepted" = the server went on to serve it: an accept.tracked stamp lies between this connection's Accept and
		// the next Accept. A connection handed out by the listener while the serve context ends is closed by the stopping
		// server without being served: it must not leak, but it gets no callbacks.
		ta := rc.AcceptSeq.Load()
		next := int64(1) << 62
		for _, o := range sc.l.Conns {
			if oa := o.AcceptSeq.Load(); oa > ta && oa < next {
				next = oa
			}
		}
		isTracked := false
		ymu.Lock()
		for _, st := range trackedStamps {
			if st > ta && st < next {
				isTracked = true
			}
		}
		ymu.Unlock()
		if !isTracked {
			lateConns = append(lateConns, rc)
			continue
		}
		accepted[rc.RemoteAddr().String()] = rc
	}
	// a connection the accept callback approved must be served (and later get its close callback)
	sc.mu.Lock()
	for _, e := range sc.accepts {
		if e.rejected {
			continue
		}
		if _, ok := accepted[e.remote]; !ok {
			r.Violate(c, "approved-connection-dropped", mon.Attrs{"terminal": c.Terminal}, fmt.Sprintf("%s: OnAcceptConnFunc returned nil for %s but the server dropped the connection without serving it (no close callback will follow)", ctxs, e.remote))
		}
	}
	sc.mu.Unlock()
	deadline := time.Now().Add(3 * time.Second)
	for time.Now().Before(deadline) {
		tr, cn := s.VerifConnAccounting()
		sc.mu.Lock()
		ncl := len(sc.closes)
		sc.mu.Unlock()
		if tr == 0 && cn == 0 && (c.Mask&8 == 0 || ncl >= len(accepted)) {
			break
		}
		time.Sleep(2 * time.Millisecond)
	}
	if served {
		tr, cn := s.VerifConnAccounting()
		if tr != 0 || cn != 0 {
			r.Violate(c, "accounting-drift", mon.Attrs{"on_accept": c.Mask&4 != 0, "rejections": len(sc.rejected) > 0}, fmt.Sprintf("%s: Serve returned, all clients gone, 3 s later the server still tracks %d connections and its counter is %d (accepted %d, rejected %d)", ctxs, tr, cn, len(accepted), len(sc.rejected)))
		}
		for name, rc := range accepted {
			if rc.ServerCloses() == 0 {
				r.Violate(c, "connection-never-closed", a, fmt.Sprintf("%s: %s was accepted but the server never closed it", ctxs, name))
			}
		}
		for _, rc := range lateConns {
			if rc.ServerCloses() == 0 {
				r.Violate(c, "connection-never-closed", a, fmt.Sprintf("%s: %s was handed out by the listener after the context was cancelled and the server never closed it", ctxs, rc.RemoteAddr()))
			}
		}
	}

	// ---- accept callback counts ----
	sc.mu.Lock()
	defer sc.mu.Unlock()
	byRemote := map[string]*srvx.RecConn{}
	for _, rc := range sc.l.Conns {
		byRemote[rc.RemoteAddr().String()] = rc
	}
	sort.Slice(sc.accepts, func(i, j int) bool { return sc.accepts[i].entry < sc.accepts[j].entry })
	for _, e := range sc.accepts {
		rc := byRemote[e.remote]
		if rc == nil {
			continue
		}
		ta := rc.AcceptSeq.Load()
		A, S, Cb := 0, 0, 0
		for name, o := range accepted {
			if name == e.remote || o.AcceptSeq.Load() == 0 || o.AcceptSeq.Load() > ta {
				continue
			}
			A++
			if fc := o.FirstClose(); fc != 0 && fc < e.entry {
				S++
			}
		}
		if c.Mask&8 != 0 {
			for _, ce := range sc.closes {
				if ce.entry < ta {
					Cb++
				}
			}
		}
		lo, hi := A+1-S, A+1-Cb
		r.Eval(1)
		if int(e.count) < lo || int(e.count) > hi {
			r.Violate(c, "accept-count-wrong", mon.Attrs{"on_close": c.Mask&8 != 0, "direction": map[bool]string{true: "high", false: "low"}[int(e.count) > hi]},
				fmt.Sprintf("%s: accept callback for %s was told %d live connections; %d connections were tracked before it, of which %d had a server-side Close before the callback and %d close callbacks had begun: true count is within [%d,%d]", ctxs, e.remote, e.count, A, S, Cb, lo, hi))
		}
	}
	// ---- rejected connections ----
	for _, res := range results {
		if res.dialErr != nil || !res.rejected || res.rc == nil || res.rc.AcceptSeq.Load() == 0 {
			continue
		}
		r.Eval(1)
		if res.rc.ServerCloses() == 0 || !res.gotEOF {
			r.Violate(c, "rejected-connection-not-closed", a, fmt.Sprintf("%s: %s rejected by the accept callback: server-side Close calls %d, client saw EOF: %v", ctxs, res.rc.RemoteAddr(), res.rc.ServerCloses(), res.gotEOF))
		}
	}
	// ---- close callbacks ----
	perRemote := map[string]int{}
	for _, ce := range sc.closes {
		perRemote[ce.remote]++
	}
	if c.Mask&8 != 0 && served {
		for name := range accepted {
			r.Eval(1)
			if n := perRemote[name]; n != 1 {
				r.Violate(c, "close-callback-count", mon.Attrs{"on_accept": c.Mask&4 != 0, "n": min(n, 2)}, fmt.Sprintf("%s: OnCloseConnFunc ran %d times for accepted connection %s (want exactly once)", ctxs, n, name))
			}
		}
		for name := range sc.rejected {
			if perRemote[name] > 0 {
				r.Violate(c, "close-callback-for-rejected", a, fmt.Sprintf("%s: OnCloseConnFunc ran for rejected connection %s", ctxs, name))
			}
		}
	}
	h := mon.Mix(uint64(c.Mask), mon.HashS(c.Terminal), uint64(c.K), uint64(c.HDelay))
	if c.Yield {
		h = mon.Mix(h, 1)
	}
	// the observed interleaving: order of accept / close / handler-start events
	type ev struct {
		s int64
		k uint64
	}
	var evs []ev
	for _, e := range sc.accepts {
		evs = append(evs, ev{e.entry, 1})
	}
	for _, e := range sc.closes {
		evs = append(evs, ev{e.entry, 2})
	}
	for _, st := range sc.hstart {
		evs = append(evs, ev{st, 3})
	}
	if shutCall > 0 {
		evs = append(evs, ev{shutCall, 4}, ev{shutRet, 5})
	}
	if cancelStamp > 0 {
		evs = append(evs, ev{cancelStamp, 6})
	}
	sort.Slice(evs, func(i, j int) bool { return evs[i].s < evs[j].s })
	for _, e := range evs {
		h = mon.Mix(h, e.k)
	}
	r.Distinct(h)
	r.Cover("terminal", c.Terminal)
	r.Cover("mask", fmt.Sprint(c.Mask))
	r.NoteAdd("requests_completed", sc.done.Load())
	r.NoteAdd("connections_accepted", int64(len(accepted)))
	r.NoteAdd("connections_rejected", int64(len(sc.rejected)))
	r.Sample(map[string]any{"mask": c.Mask, "clients": c.K, "terminal": c.Terminal, "yield": c.Yield, "events": len(evs), "accept_callbacks": len(sc.accepts), "close_callbacks": len(sc.closes), "serve_err": fmt.Sprint(serveErr)})
}

func errDeadline() error { return osErrDeadline }

// Package c19: client hooks observe exactly the bytes sent, each chunk read and the final frame.
package c19

import (
	"bytes"
	"context"
	"errors"
	"fmt"
	"github.com/aldas/go-modbus-client/packet"
	"math/rand"
	"os"
	"sync"
	"sync/atomic"
	"time"

	modbus "github.com/aldas/go-modbus-client"
	"verif/clientx"
	"verif/libx"
	"verif/mon"
	"verif/props/c07"
	"verif/specref"
	"verif/xport"
)

type Case struct {
	Client  int    `json:"client"`
	FC      uint8  `json:"fc"`
	Size    int    `json:"size"`
	Exc     bool   `json:"exc"`
	Seed    int64  `json:"seed"`
	N       int    `json:"n"`
	RecPars bool   `json:"rec_parser"`
	Kind    string `json:"kind"`
}

type hookEv struct {
	Seq  int64
	Kind string // write | read | parse | parser
	Data []byte
	N    int
	Err  string
}

type recHooks struct {
	mu  sync.Mutex
	clk *xport.Clock
	evs []hookEv
}

func (h *recHooks) add(kind string, data []byte, n int, err error) {
	h.mu.Lock()
	defer h.mu.Unlock()
	e := hookEv{Seq: h.clk.Tick(), Kind: kind, Data: append([]byte(nil), data...), N: n}
	if err != nil {
		e.Err = err.Error()
	}
	h.evs = append(h.evs, e)
}
func (h *recHooks) BeforeWrite(b []byte)                   { h.add("write", b, len(b), nil) }
func (h *recHooks) AfterEachRead(b []byte, n int, e error) { h.add("read", b, n, e) }
func (h *recHooks) BeforeParse(b []byte)                   { h.add("parse", b, len(b), nil) }

func Spec() *mon.Spec {
	return &mon.Spec{
		ID:      "C19",
		RuleAdd: "Later additions (rounds 4-17): empty-read flavours with exact error-text comparison; bytes together with a deadline error; floods; an application request type whose Bytes() is not idempotent (hook bytes vs bytes the transport was given); a second call after an exception/fault; damaged replies; a stray byte read on its own; cancellation during the completing read; outcome differences need three differing re-runs at 40x the timeout before they are believed.",
		Level:   "exploration",
		Rule: "every call runs twice on the same scripted schedule: on a client with recording hooks (each slice argument copied at call time, stamped from the clock the transport log uses) and on a client without hooks. Schedules: fragmentations of the reply (single/double/byte-wise cuts, timed-out reads between chunks) and terminal faults after a prefix (EOF, I/O error alone or together with bytes, stall, context cancel, write error), normal and exception replies, 10 functions x 3 client kinds; network kinds also through modbus.NewClient with a recording ParseResponseFunc. " +
			"Oracle: exactly one BeforeWrite with Bytes() of the request, stamped before the transport Write; one AfterEachRead per transport Read, same order, exactly that read's bytes, n and error; if (and only if) a reply was handed to the parser exactly one BeforeParse carrying the concatenation of all bytes read, stamped after the last read (and before the parser, where recorded); outcome (response bytes / error text and type) identical with and without hooks. distinct key=(client, fc, schedule hash).",
		Assumptions: []string{"'handed to the parser' is observed directly for clients built with a recording ParseResponseFunc and inferred from the outcome otherwise (success or an error that is neither *ClientError nor a context error)"},
		NewCase:     func() any { return &Case{} },
		Gen:         gen,
		Run:         run,
		SelfTest:    specref.SelfTest,
	}
}

func gen(g *mon.Gen) {
	rng := g.Rng
	for client := 0; client < 3; client++ {
		for _, fc := range specref.FCs {
			for size := 0; size < 3; size++ {
				if size > 0 && (fc == 5 || fc == 6 || fc == 15 || fc == 16) {
					continue
				}
				for _, exc := range []bool{false, true} {
					if exc && size > 0 {
						continue
					}
					n := g.Pick(24, 600)
					if client == clientx.Serial {
						n = g.Pick(6, 60)
					}
					g.Emit(&Case{Client: client, FC: fc, Size: size, Exc: exc, Seed: rng.Int63(), N: n, Kind: "frag"})
					g.Emit(&Case{Client: client, FC: fc, Size: size, Exc: exc, Seed: rng.Int63(), N: n, Kind: "fault"})
					if client != clientx.Serial {
						g.Emit(&Case{Client: client, FC: fc, Size: size, Exc: exc, Seed: rng.Int63(), N: n, RecPars: true, Kind: "frag"})
						g.Emit(&Case{Client: client, FC: fc, Size: size, Exc: exc, Seed: rng.Int63(), N: n, RecPars: true, Kind: "fault"})
					}
				}
			}
		}
	}
}

func mkSchedule(rng *rand.Rand, reply []byte, kind string, E int, serial bool) (xport.Script, string) {
	s, d := mkSchedule0(rng, reply, kind, E)
	// the empty reads between fragments spelled the ways transports spell them: the bare deadline sentinel, the sentinel
	// inside a wrapping error, and for a serial port zero bytes without an error or io.EOF
	if rng.Intn(2) == 0 {
		kinds := []string{"deadline", "deadline-wrapped"}
		if serial {
			kinds = []string{"deadline", "deadline-wrapped", "", "eof", "eof-wrapped"}
		}
		for i := range s.Steps {
			if s.Steps[i].N == 0 && s.Steps[i].Err == "deadline" {
				s.Steps[i].Err = kinds[rng.Intn(len(kinds))]
			}
		}
		d += "/empty-read-flavours"
	}
	if rng.Intn(4) == 0 {
		// one fragment arrives together with the timeout that ended its read (n > 0 and an error)
		for i := range s.Steps {
			if s.Steps[i].N > 0 && s.Steps[i].Err == "" && i+1 < len(s.Steps) {
				s.Steps[i].Err = "deadline"
				d += "/bytes-with-deadline"
				break
			}
		}
	}
	return s, d
}

func mkSchedule0(rng *rand.Rand, reply []byte, kind string, E int) (xport.Script, string) {
	L := len(reply)
	if kind == "frag" {
		var cuts []int
		switch rng.Intn(4) {
		case 0:
		case 1:
			cuts = []int{1 + rng.Intn(max(1, L-1))}
		case 2:
			for k := 1; k < L; k++ {
				cuts = append(cuts, k)
			}
		default:
			prev := 0
			for prev < L-1 && len(cuts) < 5 {
				prev += 1 + rng.Intn(max(1, L/2))
				if prev < L {
					cuts = append(cuts, prev)
				}
			}
		}
		steps := xport.Cuts(L, cuts, rng.Intn(3))
		if rng.Intn(4) == 0 {
			steps = append([]xport.ReadStep{{Err: "deadline"}}, steps...)
		}
		sc := xport.Script{Reply: reply, Steps: steps, Tail: "deadline"}
		if rng.Intn(6) == 0 {
			// the caller cancels while the read that brings the last bytes is under way: with or without hooks the call has
			// its complete reply when that read returns (or goes on to notice the cancellation) - the same either way
			sc.CancelAtRead = len(steps)
			return sc, fmt.Sprintf("frag%v/cancel-during-last-read", cuts)
		}
		return sc, fmt.Sprintf("frag%v", cuts)
	}
	p := rng.Intn(L)
	var steps []xport.ReadStep
	if p > 0 {
		if p > 2 && rng.Intn(2) == 0 {
			k := 1 + rng.Intn(p-1)
			steps = append(steps, xport.ReadStep{N: k}, xport.ReadStep{Err: "deadline"}, xport.ReadStep{N: p - k})
		} else {
			steps = append(steps, xport.ReadStep{N: p})
		}
	}
	s := xport.Script{Reply: reply, Steps: steps, Tail: "deadline"}
	f := []string{"eof", "eof-with-bytes", "inject", "inject-with-bytes", "stall", "cancel", "write", "flood"}[rng.Intn(8)]
	switch f {
	case "eof":
		s.Tail = "eof"
	case "eof-with-bytes":
		s.Steps = append(s.Steps, xport.ReadStep{N: 1 + rng.Intn(3), Err: "eof"})
		s.Tail = "eof"
	case "inject":
		s.Steps = append(s.Steps, xport.ReadStep{Err: "inject"})
	case "inject-with-bytes":
		s.Steps = append(s.Steps, xport.ReadStep{N: 1 + rng.Intn(3), Err: "inject"})
	case "cancel":
		s.CancelAtRead = len(s.Steps) + 1 + rng.Intn(2)
	case "write":
		s.WriteErr = true
	case "flood":
		// a babbling device: one read fills whatever buffer the client offers (more than a Modbus frame can hold)
		s.Reply = append(append([]byte{}, reply[:p]...), libx.RandBytes(rng, 600)...)
		s.Steps = append(s.Steps, xport.ReadStep{N: 600})
	}
	return s, fmt.Sprintf("%s@%d", f, p)
}

func outcomeKey(o clientx.Outcome) string {
	if o.Hung {
		return "hung"
	}
	if o.Panic != "" {
		return "panic:" + o.Panic
	}
	if o.Err != nil {
		return fmt.Sprintf("err:%T:%s", o.Err, o.Err.Error())
	}
	if libx.IsNilValue(o.Resp) {
		return "nil-nil"
	}
	return fmt.Sprintf("ok:%T:%x", o.Resp, o.Resp.Bytes())
}

// stampedRequest wraps a library request; each Bytes() call writes a new sequence number into the last byte before the
// trailer-free end of the frame's first two bytes (TCP: transaction id low byte; RTU: left alone except a counter kept).
type stampedRequest struct {
	packet.Request
	n atomic.Int32
}

func (s *stampedRequest) Bytes() []byte {
	b := append([]byte(nil), s.Request.Bytes()...)
	k := s.n.Add(1)
	if len(b) >= 8 && b[2] == 0 && b[3] == 0 { // MBAP framing: stamp the transaction id
		b[0], b[1] = byte(k>>8), byte(k)
	} else if len(b) >= 4 { // RTU framing: stamp the unit id and redo the CRC
		b[0] = byte(k)
		w := specref.CRC(b[:len(b)-2])
		b[len(b)-2], b[len(b)-1] = byte(w), byte(w>>8)
	}
	return b
}

func run(ci any, r *mon.Rec) {
	c := ci.(*Case)
	if clientx.TooManyHangs() {
		r.NoteAdd("cases_skipped_after_3_hangs", 1)
		return
	}
	rng := rand.New(rand.NewSource(c.Seed))
	req, _, reply, err := c07.Build(rng, c.Client, c.FC, c.Size, c.Exc)
	if err != nil {
		r.Violate(c, "constructor-refuses-legal", mon.Attrs{"fc": int(c.FC)}, err.Error())
		return
	}
	if c.Seed%4 == 0 {
		// an application-defined request type around the library's (the clients take any packet.Request): every Bytes()
		// call stamps a fresh sequence number into the frame, so "the bytes of the encoded request" are the bytes of ONE
		// encoding - the one the transport gets
		req = &stampedRequest{Request: req}
		r.Cover("request-type", "application-defined, Bytes() not idempotent")
	}
	E := req.ExpectedResponseLength()
	rt := 12 * time.Millisecond
	if c.Client == clientx.Serial {
		rt = 20 * time.Millisecond
	}
	for i := 0; i < c.N; i++ {
		rep := reply
		if i%5 == 4 && len(reply) > 3 {
			// what the hooks are shown does not depend on the reply being a good one: a device that sends the last two
			// bytes (the RTU checksum) in the wrong order, or one flipped bit somewhere
			rep = append([]byte{}, reply...)
			if L := len(rep); i%10 == 4 && rep[L-1] != rep[L-2] {
				rep[L-1], rep[L-2] = rep[L-2], rep[L-1]
			} else {
				rep[rng.Intn(len(rep))] ^= 1 << uint(rng.Intn(8))
			}
			r.Cover("reply", "damaged (last two bytes swapped / one bit flipped)")
		}
		script, desc := mkSchedule(rng, rep, c.Kind, E, c.Client == clientx.Serial)
		if len(rep) > 0 && &rep[0] != &reply[0] {
			desc += "/damaged-reply"
		}
		if i%5 == 3 && c.Kind == "frag" {
			// a stray byte on the line (another station, noise) read on its own just before the reply arrives: it was
			// read, so it is part of what the hooks are shown - the read hook and the parse hook alike
			script.Reply = append([]byte{rep[0] ^ 0x5a}, script.Reply...)
			script.Steps = append([]xport.ReadStep{{N: 1}}, script.Steps...)
			desc += "/stray-first-byte"
			r.Cover("reply", "a stray byte read on its own before the reply")
		}
		clk := &xport.Clock{}
		h := &recHooks{clk: clk}
		opt := clientx.Options{ReadTimeout: rt, Hooks: h, Clock: clk, Flusher: i%2 == 0}
		plain := clientx.Options{ReadTimeout: rt, Flusher: i%2 == 0}
		if c.RecPars {
			opt.OnParse = func(d []byte) { h.add("parser", d, len(d), nil) }
			plain.OnParse = func(d []byte) {}
		}
		// one third of the schedules run as the SECOND call on a client whose first call was an exception reply, a fault
		// or a clean exchange: hooks must not see anything left over from the earlier call
		var with, without clientx.Outcome
		if i%3 == 2 {
			warm, _ := mkSchedule(rng, reply, []string{"frag", "fault"}[rng.Intn(2)], E, c.Client == clientx.Serial)
			if rng.Intn(2) == 0 { // exception reply to the same request
				ex := specref.Resp{FC: c.FC, Unit: reply[map[bool]int{true: 6, false: 0}[clientx.FramingOf(c.Client) == specref.TCP]], TID: uint16(reply[0])<<8 | uint16(reply[1]), Exception: true, ExCode: 2}.Encode(clientx.FramingOf(c.Client))
				warm = xport.Script{Reply: ex, Steps: xport.Cuts(len(ex), nil, 0), Tail: "deadline"}
			}
			warm.CancelAtRead = 0
			sw := clientx.NewSession(c.Client, opt)
			sw.Do(req, warm)
			h.mu.Lock()
			h.evs = nil
			h.mu.Unlock()
			with = sw.Do(req, script)
			sp := clientx.NewSession(c.Client, plain)
			sp.Do(req, warm)
			without = sp.Do(req, script)
			desc += "+after-warmup"
		} else {
			with = clientx.Run(c.Client, req, script, opt)
			without = clientx.Run(c.Client, req, script, plain)
		}
		r.Eval(1)
		a := mon.Attrs{"client": clientx.KindName(c.Client), "rec_parser": c.RecPars}
		ctx := fmt.Sprintf("%s client fc%d schedule %s steps %v tail %s", clientx.KindName(c.Client), c.FC, desc, script.Steps, script.Tail)
		r.Distinct(mon.Mix(uint64(c.Client), uint64(c.FC), uint64(len(reply)), mon.HashS(desc), b2u(c.RecPars), b2u(c.Exc)))
		if with.Hung || without.Hung {
			r.Violate(c, "hang", a, ctx)
			continue
		}
		kw, kp := outcomeKey(with), outcomeKey(without)
		if kw != kp {
			// wall-clock sensitive outcomes (a timeout racing the last read) are re-run once before being believed
			// (an outcome that really depends on the hooks differs every time; one that differed because the machine
			// stalled one of the two runs does not: three more pairs with a 40x timeout, all of them have to differ)
			differ, last := 0, ""
			for try := 0; try < 3; try++ {
				with2 := clientx.Run(c.Client, req, script, clientx.Options{ReadTimeout: 40 * rt, Hooks: &recHooks{clk: &xport.Clock{}}, Flusher: i%2 == 0, OnParse: plain.OnParse})
				without2 := clientx.Run(c.Client, req, script, clientx.Options{ReadTimeout: 40 * rt, Flusher: i%2 == 0, OnParse: plain.OnParse})
				if outcomeKey(with2) != outcomeKey(without2) {
					differ++
					last = fmt.Sprintf("with hooks %s, without %s", outcomeKey(with2), outcomeKey(without2))
				}
			}
			r.NoteAdd("outcome_pairs_rerun", 1)
			if differ == 3 {
				r.Violate(c, "hooks-change-outcome", a, fmt.Sprintf("%s: %s (first pair: with %s, without %s)", ctx, last, kw, kp))
			}
			continue
		}
		// ---- hook trace vs transport log ----
		var tw, tr []xport.Event
		for _, e := range with.Events {
			switch e.Op {
			case "write":
				tw = append(tw, e)
			case "read":
				tr = append(tr, e)
			}
		}
		var hw, hr, hp, hparser []hookEv
		for _, e := range h.evs {
			switch e.Kind {
			case "write":
				hw = append(hw, e)
			case "read":
				hr = append(hr, e)
			case "parse":
				hp = append(hp, e)
			case "parser":
				hparser = append(hparser, e)
			}
		}
		sent := []byte(nil)
		if len(tw) > 0 {
			sent = tw[0].Data // what the transport was given (an injected write error still records the attempt)
		}
		if len(hw) != 1 || (len(tw) > 0 && !bytes.Equal(hw[0].Data, sent)) {
			r.Violate(c, "before-write-wrong", a, fmt.Sprintf("%s: %d BeforeWrite calls, args %x, transport was given %x", ctx, len(hw), datas(hw), sent))
		} else if len(tw) > 0 && !(hw[0].Seq < tw[0].Seq) {
			r.Violate(c, "before-write-late", a, fmt.Sprintf("%s: BeforeWrite stamped %d, transport write %d", ctx, hw[0].Seq, tw[0].Seq))
		}
		if len(hr) != len(tr) {
			a2 := mon.Attrs{"client": clientx.KindName(c.Client), "rec_parser": c.RecPars, "last_read_err": lastErr(tr)}
			r.Violate(c, "after-read-count", a2, fmt.Sprintf("%s: transport saw %d reads, AfterEachRead called %d times; transport reads %s", ctx, len(tr), len(hr), reads(tr)))
		} else {
			for k := range tr {
				want := tr[k]
				got := hr[k]
				gotErr := got.Err
				if !(bytes.Equal(got.Data, want.Data) && got.N == want.N && gotErr == want.ErrText) {
					r.Violate(c, "after-read-args", a, fmt.Sprintf("%s: read #%d returned n=%d err=%q bytes %x; hook got n=%d err=%q bytes %x", ctx, k, want.N, want.Err, want.Data, got.N, got.Err, got.Data))
					break
				}
				if !(want.Seq < got.Seq) || (k+1 < len(tr) && !(got.Seq < tr[k+1].Seq)) {
					r.Violate(c, "after-read-order", a, fmt.Sprintf("%s: hook for read #%d stamped %d, transport read %d, next read %v", ctx, k, got.Seq, want.Seq, tr[min(k+1, len(tr)-1)].Seq))
					break
				}
			}
		}
		var all []byte
		for _, e := range tr {
			all = append(all, e.Data...)
		}
		reached := false
		if c.RecPars {
			reached = len(hparser) > 0
		} else {
			var ce *modbus.ClientError
			reached = with.Err == nil || !(errors.As(with.Err, &ce) || errors.Is(with.Err, context.Canceled) || errors.Is(with.Err, context.DeadlineExceeded))
		}
		switch {
		case reached && len(hp) != 1:
			r.Violate(c, "before-parse-count", mon.Attrs{"client": clientx.KindName(c.Client), "rec_parser": c.RecPars, "tail": script.Tail}, fmt.Sprintf("%s: reply handed to the parser but BeforeParse called %d times (outcome %s)", ctx, len(hp), kw))
		case !reached && len(hp) != 0:
			r.Violate(c, "before-parse-without-parse", a, fmt.Sprintf("%s: BeforeParse called %d times although nothing was parsed (outcome %s)", ctx, len(hp), kw))
		case reached:
			if !bytes.Equal(hp[0].Data, all) {
				r.Violate(c, "before-parse-args", a, fmt.Sprintf("%s: BeforeParse got %x, bytes read %x", ctx, hp[0].Data, all))
			}
			if len(tr) > 0 && !(tr[len(tr)-1].Seq < hp[0].Seq) {
				r.Violate(c, "before-parse-order", a, fmt.Sprintf("%s: BeforeParse stamped %d before the last read %d", ctx, hp[0].Seq, tr[len(tr)-1].Seq))
			}
			if c.RecPars && len(hparser) == 1 && (!bytes.Equal(hparser[0].Data, hp[0].Data) || !(hp[0].Seq < hparser[0].Seq)) {
				r.Violate(c, "before-parse-vs-parser", a, fmt.Sprintf("%s: parser received %x (stamp %d), BeforeParse %x (stamp %d)", ctx, hparser[0].Data, hparser[0].Seq, hp[0].Data, hp[0].Seq))
			}
		}
		if i == 0 {
			r.Sample(map[string]any{"client": clientx.KindName(c.Client), "fc": c.FC, "schedule": desc, "transport_reads": len(tr), "hook_reads": len(hr), "before_parse": len(hp), "outcome": kw[:min(len(kw), 60)]})
		}
	}
}

func sameErr(hook, transport string) bool {
	switch transport {
	case "":
		return hook == ""
	case "deadline":
		return hook == osDeadlineText // exactly the error the read returned, not a substitute
	case "eof":
		return hook == "EOF"
	case "inject":
		return hook == xport.ErrInjected.Error()
	}
	return hook == transport
}

var osDeadlineText = os.ErrDeadlineExceeded.Error()

func lastErr(tr []xport.Event) string {
	if len(tr) == 0 {
		return "none"
	}
	return tr[len(tr)-1].Err
}

func reads(tr []xport.Event) string {
	s := ""
	for _, e := range tr {
		s += fmt.Sprintf("[n=%d err=%q]", e.N, e.Err)
	}
	return s
}

func datas(h []hookEv) [][]byte {
	var out [][]byte
	for _, e := range h {
		out = append(out, e.Data)
	}
	return out
}

func b2u(b bool) uint64 {
	if b {
		return 1
	}
	return 0
}

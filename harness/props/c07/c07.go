// Package c07: clients return the complete reply however the transport fragments it.
package c07

import (
	"bytes"
	"errors"
	"fmt"
	"math/rand"
	"strings"
	"time"

	"github.com/aldas/go-modbus-client/packet"
	"verif/clientx"
	"verif/libx"
	"verif/mon"
	"verif/specref"
	"verif/xport"
)

type Case struct {
	Client int    `json:"client"`
	FC     uint8  `json:"fc"`
	Size   int    `json:"size"` // 0 min, 1 interior, 2 max
	Exc    bool   `json:"exc"`
	Mode   string `json:"mode"` // single | pairs | bytewise | random
	Seed   int64  `json:"seed"`
	Dense  bool   `json:"dense"`
}

func Spec() *mon.Spec {
	return &mon.Spec{
		ID:      "C07",
		RuleAdd: "Later additions (rounds 4-17): session modes (several exchanges on one client, idle gaps longer than the read timeout, slow first fragments, one exchange answered with an exception, a first caller under a 70 ms context deadline, a write slower than the read timeout); empty-read flavours (EOF, wrapped deadline, (0,nil), bytes together with a deadline error); all 256 exception codes; unit 0/255 and transaction id 0; CRC-lookalike payloads and replies that begin with the request bytes; FC17 replies that fill the frame; connections without read deadlines.",
		Level:   "exploration",
		Rule: "for every client kind {TCP, RTU-over-network, serial} x 10 functions x reply sizes {minimum, interior, maximum the constructors allow} the request is built by the library, the well-formed reply (or an exception reply) by the reference encoder, and delivered by a scripted transport according to a schedule of read events: every single cut position 1..L-1 x {0,1,5} timed-out reads at the cut (serial and replies > 64 bytes: all positions near the expected-length boundaries plus sampled ones in quick), all pairs of cuts for replies <= 16 bytes, PRNG triples, byte-at-a-time. " +
			"Oracle: normal reply => err==nil, right type, Bytes()==reply; exception reply => nil response and errors.As finds the typed exception with the reply's unit/function/code; never a value from a strict prefix; never an error when the transport log shows the whole reply was handed over. Verdicts use the transport log (bytes handed over, reads after completion), not the clock; a timeout before complete delivery is retried with a 100x longer timeout. distinct key=(client, fc, L, schedule hash).",
		Assumptions: []string{"scripted transport returns timed-out reads immediately (os.ErrDeadlineExceeded) and never blocks", "after 3 'timeout on complete reply' verdicts the remaining schedules of that case are skipped (each costs a full read timeout); skipped count is in the evidence"},
		NewCase:     func() any { return &Case{} },
		Gen:         gen,
		Run:         run,
		SelfTest:    specref.SelfTest,
	}
}

func gen(g *mon.Gen) {
	rng := g.Rng
	for client := 0; client < 3; client++ {
		for _, fc := range specref.FCs {
			for size := 0; size < 3; size++ {
				if size > 0 && (fc == 5 || fc == 6) {
					continue
				}
				for _, exc := range []bool{false, true} {
					if exc && size > 0 {
						continue
					}
					dense := g.Thorough() || client != clientx.Serial
					g.Emit(&Case{Client: client, FC: fc, Size: size, Exc: exc, Mode: "single", Seed: rng.Int63(), Dense: dense})
					g.Emit(&Case{Client: client, FC: fc, Size: size, Exc: exc, Mode: "bytewise", Seed: rng.Int63()})
					g.Emit(&Case{Client: client, FC: fc, Size: size, Exc: exc, Mode: "flavours", Seed: rng.Int63()})
					if exc && (fc == 3 || fc == 16 || g.Thorough()) {
						g.Emit(&Case{Client: client, FC: fc, Exc: true, Mode: "exccodes", Seed: rng.Int63()})
					}
					if client != clientx.Serial || g.Thorough() {
						g.Emit(&Case{Client: client, FC: fc, Size: size, Exc: exc, Mode: "pairs", Seed: rng.Int63()})
					}
					for k := 0; k < g.Pick(1, 30); k++ {
						g.Emit(&Case{Client: client, FC: fc, Size: size, Exc: exc, Mode: "random", Seed: rng.Int63()})
					}
					if !exc && size == 0 && (client != clientx.Serial || g.Thorough()) {
						g.Emit(&Case{Client: client, FC: fc, Mode: "session", Seed: rng.Int63()})
					}
					if !exc && size == 0 {
						g.Emit(&Case{Client: client, FC: fc, Mode: "session-slow", Seed: rng.Int63()})
					}
					if !exc && size == 0 && client != clientx.TCP && fc <= 4 {
						g.Emit(&Case{Client: client, FC: fc, Mode: "crc-lookalike", Seed: rng.Int63()})
					}
				}
			}
		}
	}
}

// Build creates the request and its reply for a case.
func Build(rng *rand.Rand, client int, fc uint8, size int, exc bool) (packet.Request, specref.Req, []byte, error) {
	fr := clientx.FramingOf(client)
	q := libx.LegalReq(rng, fc, []float64{0, 0.5, 1}[size])
	switch rng.Intn(8) {
	case 0:
		q.Unit = 0 // on Modbus TCP unit 0 is ordinary direct addressing (a device answers); gateways use it on RTU links too
	case 1:
		q.Unit = 255
	case 2:
		q.TID = 0
	}
	req, err := libx.NewRequest(fr, q)
	if err != nil {
		return nil, q, nil, err
	}
	var p specref.Resp
	if exc {
		p = specref.Resp{FC: fc, Unit: q.Unit, TID: q.TID, Exception: true, ExCode: []uint8{1, 2, 3, 4, 5, 6, 7, 8, 10, 11}[rng.Intn(10)]}
	} else {
		p = libx.ReplyFor(rng, q)
		if fc == 17 {
			p.ServerID = libx.RandBytes(rng, []int{1, 1 + rng.Intn(60), 120}[size])
			p.Additional = libx.RandBytes(rng, []int{0, rng.Intn(30), 120}[size])
			if size == 2 && rng.Intn(2) == 0 {
				// the largest frame the framing allows (260 bytes TCP, 256 RTU): only FC17 can fill it completely
				if room := specref.MaxADU(fr) - len(p.Encode(fr)); room > 0 {
					p.Additional = append(p.Additional, libx.RandBytes(rng, room)...)
				}
			}
		}
	}
	return req, q, p.Encode(fr), nil
}

type judge struct {
	c       *Case
	r       *mon.Rec
	req     packet.Request
	q       specref.Req
	reply   []byte
	timeout int // consecutive timeout-on-complete verdicts
	skipped int
	noRDL   bool // the scripted connection refuses read deadlines
}

func errClass(err error) string {
	if err == nil {
		return "nil"
	}
	s := err.Error()
	switch {
	case strings.Contains(s, "total read timeout"):
		return "timeout"
	case errors.Is(err, packet.ErrInvalidCRC):
		return "crc"
	case strings.Contains(s, "too short"):
		return "too-short"
	case strings.Contains(s, "does not match"):
		return "length-mismatch"
	case strings.Contains(s, "unknown function code"):
		return "unknown-function"
	}
	return "other"
}

// attempt runs one schedule; returns the violation (kind, attrs, detail) or "".
func (j *judge) attempt(steps []xport.ReadStep, rt time.Duration) (string, mon.Attrs, string, bool) {
	c := j.c
	out := clientx.Run(c.Client, j.req, xport.Script{Reply: j.reply, Steps: steps, Tail: "deadline", NoReadDeadline: j.noRDL}, clientx.Options{ReadTimeout: rt, Ctor: int(uint64(c.Seed) % 4)})
	L := len(j.reply)
	E := j.req.ExpectedResponseLength()
	a := mon.Attrs{"client": clientx.KindName(c.Client), "fc": int(c.FC), "exception_reply": c.Exc, "delta": E - L}
	if c.FC == 17 && !c.Exc { // the reply length of FC17 is device specific: the constant expectation is the attribute, not the difference
		a = mon.Attrs{"client": clientx.KindName(c.Client), "fc": int(c.FC), "exception_reply": c.Exc, "expected": E}
	}
	ctx := fmt.Sprintf("%s client fc%d reply (%d bytes, ExpectedResponseLength %d) % x delivered as %v", clientx.KindName(c.Client), c.FC, L, E, head(j.reply), brief(steps))
	if out.Hung {
		return "hang", a, ctx + ": Do did not return; stacks:\n" + out.Stacks, false
	}
	if out.Panic != "" {
		return "do-panics", a, ctx + ": " + out.Panic, false
	}
	delivered := out.Conn.Delivered()
	after := out.Conn.ReadsAfterComplete()
	held := false
	if !c.Exc {
		if out.Err == nil && !libx.IsNilValue(out.Resp) {
			b := out.Resp.Bytes()
			if bytes.Equal(b, j.reply) && out.Resp.FunctionCode() == c.FC {
				held = true
			} else {
				a["outcome"] = "wrong-response"
				if len(b) < L && bytes.HasPrefix(j.reply, b[:min(len(b), 3)]) {
					a["outcome"] = "truncated-success"
				}
				kind := "wrong-response"
				if delivered < L && delivered >= E {
					kind = "short-read"
				}
				return kind, a, fmt.Sprintf("%s: returned %T with bytes % x (transport handed over %d of %d bytes)", ctx, out.Resp, head(b), delivered, L), false
			}
		}
	} else {
		var wantOK bool
		if clientx.FramingOf(c.Client) == specref.TCP {
			var ex *packet.ErrorResponseTCP
			wantOK = errors.As(out.Err, &ex) && ex.UnitID == j.q.Unit && ex.Function == c.FC && ex.Code == j.reply[8] && ex.TransactionID == j.q.TID
		} else {
			var ex *packet.ErrorResponseRTU
			wantOK = errors.As(out.Err, &ex) && ex.UnitID == j.q.Unit && ex.Function == c.FC && ex.Code == j.reply[2]
		}
		if wantOK && libx.IsNilValue(out.Resp) {
			held = true
		} else if out.Err == nil {
			a["outcome"] = "success"
			return "exception-not-reported", a, fmt.Sprintf("%s: returned %T without error", ctx, out.Resp), false
		}
	}
	if held {
		return "", nil, "", false
	}
	// an error although the reply is complete and correct: classify by what the transport saw
	a["err"] = errClass(out.Err)
	switch {
	case delivered < L && delivered >= E:
		a["outcome"] = "error"
		return "short-read", a, fmt.Sprintf("%s: client stopped reading after %d bytes (expected length %d < reply %d): %v", ctx, delivered, E, L, out.Err), false
	case delivered < L:
		// gave up before everything was handed over: may be the wall clock under load -> retry with a long timeout
		return "gave-up-early", a, fmt.Sprintf("%s: error after %d of %d bytes: %v", ctx, delivered, L, out.Err), errClass(out.Err) == "timeout"
	case after > 0 && errClass(out.Err) == "timeout":
		return "timeout-on-complete-reply", a, fmt.Sprintf("%s: all %d bytes handed over, client issued %d more reads and then: %v", ctx, L, after, out.Err), false
	}
	return "error-on-complete-reply", a, fmt.Sprintf("%s: all %d bytes handed over: %v", ctx, L, out.Err), false
}

func (j *judge) schedule(steps []xport.ReadStep, key uint64) {
	if j.timeout >= 3 {
		j.skipped++
		return
	}
	j.r.Eval(1)
	rt := 25 * time.Millisecond
	if j.c.Client == clientx.Serial {
		rt = 40 * time.Millisecond
	}
	kind, a, detail, retry := j.attempt(steps, rt)
	if kind != "" && retry {
		j.r.NoteAdd("retries_with_long_timeout", 1)
		kind, a, detail, _ = j.attempt(steps, 100*rt)
	}
	j.r.Distinct(mon.Mix(uint64(j.c.Client), uint64(j.c.FC), uint64(len(j.reply)), key, b2u(j.c.Exc)))
	if kind == "" {
		return
	}
	if kind == "timeout-on-complete-reply" {
		j.timeout++
	}
	j.r.Violate(j.c, kind, a, detail)
}

func b2u(b bool) uint64 {
	if b {
		return 1
	}
	return 0
}

func head(b []byte) []byte {
	if len(b) > 20 {
		return b[:20]
	}
	return b
}

func brief(steps []xport.ReadStep) string {
	var sb strings.Builder
	for i, s := range steps {
		if i >= 14 {
			fmt.Fprintf(&sb, "...(%d reads)", len(steps))
			break
		}
		if s.Err != "" {
			fmt.Fprintf(&sb, "[%d,%s]", s.N, s.Err)
		} else {
			fmt.Fprintf(&sb, "[%d]", s.N)
		}
	}
	return sb.String()
}

func run(ci any, r *mon.Rec) {
	c := ci.(*Case)
	if clientx.TooManyHangs() {
		r.NoteAdd("cases_skipped_after_3_hangs", 1)
		return
	}
	rng := rand.New(rand.NewSource(c.Seed))
	req, q, reply, err := Build(rng, c.Client, c.FC, c.Size, c.Exc)
	if err != nil {
		r.Violate(c, "constructor-refuses-legal", mon.Attrs{"fc": int(c.FC)}, err.Error())
		return
	}
	j := &judge{c: c, r: r, req: req, q: q, reply: reply}
	L := len(reply)
	E := req.ExpectedResponseLength()
	switch c.Mode {
	case "single":
		j.schedule(xport.Cuts(L, nil, 0), 0)
		if c.Client != clientx.Serial && (E == L || c.Exc) {
			// a connection that does not do read deadlines (SetReadDeadline fails, reads simply block until bytes are
			// there): the short poll deadline is a convenience of the client, not something the reply depends on
			jn := &judge{c: c, r: r, req: j.req, q: j.q, reply: j.reply, noRDL: true}
			jn.schedule(xport.Cuts(L, nil, 0), 0x4e0)
			if L > 4 {
				jn.schedule(xport.Cuts(L, []int{1 + rng.Intn(L-2)}, 0), 0x4e1)
			}
			r.Cover("transport", "connection without read deadlines")
		}
		pos := map[int]bool{}
		if c.Dense {
			for k := 1; k < L; k++ {
				pos[k] = true
			}
		} else {
			for _, k := range []int{1, 2, 3, 4, 5, 6, 7, 8, 9, 10, L - 3, L - 2, L - 1, E - 2, E - 1, E, E + 1, L / 2} {
				pos[k] = true
			}
			n := 10
			if c.Dense {
				n = 40
			}
			for i := 0; i < n; i++ {
				pos[1+rng.Intn(L)] = true
			}
		}
		tos := []int{0, 1, 5}
		if c.Client == clientx.Serial && !r.Thorough() {
			tos = []int{0, 5}
		}
		for k := 1; k < L; k++ {
			if !pos[k] {
				continue
			}
			for _, to := range tos {
				j.schedule(xport.Cuts(L, []int{k}, to), mon.Mix(1, uint64(k), uint64(to)))
			}
		}
	case "bytewise":
		cuts := make([]int, 0, L)
		for k := 1; k < L; k++ {
			cuts = append(cuts, k)
		}
		j.schedule(xport.Cuts(L, cuts, 0), 2)
		j.schedule(xport.Cuts(L, cuts, 1), 3)
		// leading timed-out reads before the first byte
		steps := append([]xport.ReadStep{{Err: "deadline"}, {Err: "deadline"}, {Err: "deadline"}}, xport.Cuts(L, nil, 0)...)
		j.schedule(steps, 4)
	case "exccodes":
		// every exception code a device can put into the reply (all 256 on the network clients; the documented ones plus a
		// PRNG handful on the serial client, whose every call sleeps 30 ms), whole and cut once
		var codes []int
		if c.Client == clientx.Serial && !r.Thorough() {
			codes = []int{0, 1, 2, 3, 4, 5, 6, 7, 8, 10, 11, 0x80, 0xFF, rng.Intn(256), rng.Intn(256)}
		} else {
			for k := 0; k < 256; k++ {
				codes = append(codes, k)
			}
		}
		for _, code := range codes {
			rep := specref.Resp{FC: c.FC, Unit: q.Unit, TID: q.TID, Exception: true, ExCode: uint8(code)}.Encode(clientx.FramingOf(c.Client))
			j2 := &judge{c: c, r: r, req: req, q: q, reply: rep}
			j2.schedule(xport.Cuts(len(rep), nil, 0), mon.Mix(90, uint64(code)))
			k := 1 + (code % (len(rep) - 1))
			j2.schedule(xport.Cuts(len(rep), []int{k}, code%2), mon.Mix(91, uint64(code)))
		}
		r.Cover("exception-codes", fmt.Sprint(len(codes)))
	case "flavours":
		// the same reply, the read results spelled the other ways the io.Reader contract and real transports allow:
		// the final bytes together with io.EOF in one Read; an empty timed-out read reported through a wrapping error
		// (*fs.PathError around the deadline sentinel); for the serial client also EOF (wrapped or bare, alone or together
		// with bytes) in the middle of the reply - a serial port reports its read timeout that way
		var ks []int
		for _, k := range []int{1, 2, 3, L / 2, E - 1, L - 2, L - 1} {
			if k >= 1 && k < L {
				ks = append(ks, k)
			}
		}
		for _, k := range ks {
			j.schedule([]xport.ReadStep{{N: k}, {N: L - k, Err: "eof"}}, mon.Mix(80, uint64(k)))
			// bytes handed over together with the timeout that ended the read (io.Reader allows n > 0 with an error)
			j.schedule([]xport.ReadStep{{N: k, Err: "deadline"}, {N: L - k}}, mon.Mix(89, uint64(k)))
			j.schedule([]xport.ReadStep{{N: k}, {Err: "deadline-wrapped"}, {N: L - k}}, mon.Mix(81, uint64(k)))
			j.schedule([]xport.ReadStep{{Err: "deadline-wrapped"}, {N: k}, {Err: "deadline-wrapped"}, {Err: "deadline"}, {N: L - k}}, mon.Mix(82, uint64(k)))
			if c.Client == clientx.Serial {
				j.schedule([]xport.ReadStep{{N: k}, {Err: "eof-wrapped"}, {N: L - k}}, mon.Mix(83, uint64(k)))
				j.schedule([]xport.ReadStep{{N: k, Err: "eof"}, {N: L - k}}, mon.Mix(84, uint64(k)))
				j.schedule([]xport.ReadStep{{N: k, Err: "deadline-wrapped"}, {N: L - k, Err: "eof-wrapped"}}, mon.Mix(85, uint64(k)))
				// a port whose read timeout shows as (0, nil)
				j.schedule([]xport.ReadStep{{}, {N: k}, {}, {}, {N: L - k}}, mon.Mix(87, uint64(k)))
			}
		}
		j.schedule([]xport.ReadStep{{N: L, Err: "eof"}}, 86)
		// a slow device: long runs of empty reads before and inside the reply (far more than any retry counter a client
		// might keep, far less than the read timeout allows: an empty read costs microseconds here)
		long := func(kind string, n int) []xport.ReadStep {
			out := make([]xport.ReadStep, n)
			for i := range out {
				out[i] = xport.ReadStep{Err: kind}
			}
			return out
		}
		empties := []string{"deadline"}
		if c.Client == clientx.Serial {
			empties = []string{"deadline", "", "eof"} // "": zero bytes and no error
		}
		for i, kind := range empties {
			k := ks[len(ks)/2]
			steps := append(long(kind, 150), xport.ReadStep{N: k})
			steps = append(append(steps, long(kind, 150)...), xport.ReadStep{N: L - k})
			j.schedule(steps, mon.Mix(88, uint64(i)))
		}
	case "pairs":
		if L > 16 {
			for i := 0; i < 40; i++ {
				a, b := 1+rng.Intn(L-1), 1+rng.Intn(L-1)
				if a > b {
					a, b = b, a
				}
				j.schedule(xport.Cuts(L, []int{a, b}, rng.Intn(2)), mon.Mix(5, uint64(a), uint64(b)))
			}
			break
		}
		for a := 1; a < L; a++ {
			for b := a + 1; b < L; b++ {
				j.schedule(xport.Cuts(L, []int{a, b}, (a+b)%2), mon.Mix(5, uint64(a), uint64(b)))
			}
		}
	case "crc-lookalike":
		// hostile payload: a normal RTU reply whose first two data bytes equal the CRC of its first three bytes, so its
		// 5-byte prefix looks like a CRC-consistent frame; every cut (the interesting one is after byte 5)
		unit := libx.U8(rng)
		q := specref.Req{FC: c.FC, Unit: unit, Addr: libx.U16(rng), Qty: 1}
		if c.FC <= 2 {
			q.Qty = 9 + uint16(rng.Intn(8)) // two data bytes
		}
		rq, err := libx.NewRequest(specref.RTU, q)
		if err != nil {
			return
		}
		crc := specref.CRC([]byte{unit, c.FC, 2})
		rep := specref.Resp{FC: c.FC, Unit: unit, Data: []byte{byte(crc), byte(crc >> 8)}}.Encode(specref.RTU)
		j2 := &judge{c: c, r: r, req: rq, q: q, reply: rep}
		j2.schedule(xport.Cuts(len(rep), nil, 0), 70)
		for k := 1; k < len(rep); k++ {
			for _, to := range []int{0, 1} {
				j2.schedule(xport.Cuts(len(rep), []int{k}, to), mon.Mix(71, uint64(k), uint64(to)))
			}
		}
		j2.schedule(xport.Cuts(len(rep), []int{3, 5}, 0), 72)
		j2.schedule(xport.Cuts(len(rep), []int{1, 5}, 1), 73)
		// a second hostile payload: a reply that begins with the very bytes of the request (byte count = high byte of the
		// start address, first data bytes = low address byte, quantity and CRC of the request): nothing of it is an echo
		q3 := specref.Req{FC: c.FC, Unit: unit, Qty: uint16(3 + rng.Intn(100))}
		bc := int(q3.Qty) * 2
		if c.FC <= 2 {
			q3.Qty = uint16(33 + rng.Intn(900))
			bc = (int(q3.Qty) + 7) / 8
		}
		q3.Addr = uint16(bc)<<8 | uint16(rng.Intn(256))
		if rq3, err := libx.NewRequest(specref.RTU, q3); err == nil {
			rb := rq3.Bytes()
			data := libx.RandBytes(rng, bc)
			copy(data, rb[3:8])
			rep3 := specref.Resp{FC: c.FC, Unit: unit, Data: data}.Encode(specref.RTU)
			if bytes.Equal(rep3[:8], rb) {
				r.Cover("crc-lookalike", "reply-begins-with-the-request-bytes")
				j3 := &judge{c: c, r: r, req: rq3, q: q3, reply: rep3}
				j3.schedule(xport.Cuts(len(rep3), nil, 0), 74)
				for _, k := range []int{1, 7, 8, 9, len(rep3) / 2} {
					if k < len(rep3)-2 {
						j3.schedule(xport.Cuts(len(rep3), []int{k}, k%2), mon.Mix(75, uint64(k)))
					}
				}
			}
		}
	case "session", "session-slow":
		// several exchanges on ONE client; every response is kept and re-verified after the later calls
		// half of the sessions use a short total read timeout and idle longer than that between calls: time spent idle must
		// not count against the next call
		rtS, idle := 2*time.Second, time.Duration(0)
		if c.Seed%2 == 0 {
			rtS, idle = 250*time.Millisecond, 350*time.Millisecond // generous: a correct client needs microseconds per exchange
		}
		// a third of the other sessions talk to a slow device: the first part of every reply takes 90 ms, far longer than
		// the write timeout (20 ms) and far shorter than the read timeout (3 s); only the read timeout bounds a reply
		slow := c.Mode == "session-slow"
		if slow {
			idle = 0
		}
		wt := time.Duration(0)
		if slow {
			rtS, wt = 3*time.Second, 20*time.Millisecond
		}
		sess := clientx.NewSession(c.Client, clientx.Options{ReadTimeout: rtS, WriteTimeout: wt})
		type kept struct {
			resp packet.Response
			want []byte
		}
		var keep []kept
		ncalls := 6
		if idle > 0 || slow {
			ncalls = 3
		}
		if slow {
			// before the slow exchanges: one quick call made by a caller in a hurry - a context that expires in 70 ms, a reply
			// that is there at once. That caller's deadline is that caller's: the calls after it have the client's own read
			// timeout (3 s) for their slow replies
			if rq, _, rep, err := Build(rng, c.Client, c.FC, 0, false); err == nil && rq.ExpectedResponseLength() <= len(rep) {
				sess.NextDeadline = 70 * time.Millisecond
				out := sess.Do(rq, xport.Script{Reply: rep, Steps: xport.Cuts(len(rep), nil, 0), Tail: "deadline"})
				r.Cover("session", fmt.Sprintf("a first call with a 70 ms context deadline (succeeded: %v)", out.Err == nil))
			}
		}
		for i := 0; i < ncalls; i++ {
			excCall := !slow && idle == 0 && i == 2
			rq, _, rep, err := Build(rng, c.Client, c.FC, rng.Intn(3), excCall)
			if excCall {
				// one exchange of the session is answered with a Modbus exception: a complete, in-order reply - the
				// caller gets the typed error, the connection is as good as before and the following calls succeed
				if err != nil {
					continue
				}
				out := sess.Do(rq, xport.Script{Reply: rep, Steps: xport.Cuts(len(rep), nil, 0), Tail: "deadline"})
				var et *packet.ErrorResponseTCP
				var er *packet.ErrorResponseRTU
				r.Eval(1)
				r.Cover("session", "an exception reply in the middle of a session")
				if out.Hung || out.Panic != "" || out.Err == nil || !(errors.As(out.Err, &et) || errors.As(out.Err, &er)) {
					r.Violate(c, "exception-not-reported", mon.Attrs{"client": clientx.KindName(c.Client), "fc": int(c.FC), "outcome": "session"}, fmt.Sprintf("call %d of a session answered with the exception % x: err=%v panic=%q hung=%v", i, rep, out.Err, out.Panic, out.Hung))
					break
				}
				continue
			}
			if err != nil || rq.ExpectedResponseLength() > len(rep) {
				continue // FC23: every exchange times out (known finding), not a session matter
			}
			var cuts []int
			if len(rep) > 2 && (slow || rng.Intn(2) == 0) {
				cuts = []int{1 + rng.Intn(len(rep)-1)}
			}
			if e := rq.ExpectedResponseLength(); e < len(rep) {
				cuts = nil // short formulas only work for unfragmented replies (known finding)
			}
			if i > 0 && idle > 0 {
				time.Sleep(idle)
			}
			steps := xport.Cuts(len(rep), cuts, 0)
			if slow && len(steps) > 1 {
				steps[0].SleepMs = 90
				r.Cover("session", "slow-first-fragment")
			}
			out := sess.Do(rq, xport.Script{Reply: rep, Steps: steps, Tail: "deadline"})
			r.Eval(1)
			if out.Hung || out.Panic != "" || out.Err != nil || libx.IsNilValue(out.Resp) {
				reads := 0
				for _, e := range out.Events {
					if e.Op == "read" {
						reads++
					}
				}
				// verdict from the transport log: the whole reply was available in the first read(s); a failure with fewer
				// reads than needed to fetch it means the client gave up without looking
				r.Violate(c, "session-call-fails", mon.Attrs{"client": clientx.KindName(c.Client), "fc": int(c.FC), "idle_gap": idle > 0, "slow_device": slow}, fmt.Sprintf("call %d of a session (idle %v before it, read timeout %v): err=%v panic=%q hung=%v after %d transport reads, %d of %d reply bytes handed over", i, idle, rtS, out.Err, out.Panic, out.Hung, reads, out.Conn.Delivered(), len(rep)))
				break
			}
			keep = append(keep, kept{out.Resp, rep})
		}
		if slow && c.Client == clientx.Serial {
			// a serial line so slow that writing the request takes longer (200 ms) than the read timeout (150 ms): the read
			// timeout bounds the wait for the reply, which is there, complete, at the first read
			sw := clientx.NewSession(c.Client, clientx.Options{ReadTimeout: 150 * time.Millisecond})
			rq, _, rep, err := Build(rng, c.Client, c.FC, 0, false)
			if err == nil && rq.ExpectedResponseLength() == len(rep) {
				out := sw.Do(rq, xport.Script{Reply: rep, Steps: xport.Cuts(len(rep), nil, 0), Tail: "deadline", WriteSleepMs: 200})
				r.Eval(1)
				r.Cover("session", "write-slower-than-read-timeout")
				if out.Hung || out.Panic != "" || out.Err != nil || libx.IsNilValue(out.Resp) {
					reads := 0
					for _, e := range out.Events {
						if e.Op == "read" {
							reads++
						}
					}
					r.Violate(c, "session-call-fails", mon.Attrs{"client": clientx.KindName(c.Client), "fc": int(c.FC), "idle_gap": false, "slow_device": false, "slow_write": true}, fmt.Sprintf("the port took 200 ms to take the request (read timeout 150 ms), the complete reply was readable at once: err=%v panic=%q hung=%v after %d transport reads, %d of %d reply bytes handed over", out.Err, out.Panic, out.Hung, reads, out.Conn.Delivered(), len(rep)))
				}
			}
		}
		for i, k := range keep {
			if b := k.resp.Bytes(); !bytes.Equal(b, k.want) {
				r.Violate(c, "earlier-response-changed-by-later-call", mon.Attrs{"client": clientx.KindName(c.Client), "fc": int(c.FC)}, fmt.Sprintf("response %d of %d on one client re-encodes to % x after the later calls, it was % x", i, len(keep), head(b), head(k.want)))
				break
			}
		}
		r.Distinct(mon.Mix(8, uint64(c.Client), uint64(c.FC), uint64(c.Seed)))
	case "random":
		for i := 0; i < 12; i++ {
			var cuts []int
			prev := 0
			for prev < L-1 && len(cuts) < 6 {
				prev += 1 + rng.Intn(max(1, L/3))
				if prev < L {
					cuts = append(cuts, prev)
				}
			}
			h := uint64(6)
			for _, k := range cuts {
				h = mon.Mix(h, uint64(k))
			}
			j.schedule(xport.Cuts(L, cuts, rng.Intn(3)), h)
		}
	}
	if j.skipped > 0 {
		r.NoteAdd("schedules_skipped_after_3_timeouts", int64(j.skipped))
	}
	r.Cover("mode", c.Mode)
	if c.Mode == "random" {
		r.Sample(map[string]any{"client": clientx.KindName(c.Client), "fc": c.FC, "reply_len": L, "expected_len": E, "exception": c.Exc})
	}
}

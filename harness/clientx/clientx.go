// Package clientx drives (*modbus.Client).Do / (*modbus.SerialClient).Do over a scripted transport.
package clientx

import (
	"context"
	"fmt"
	"net"
	"runtime"
	"time"

	modbus "github.com/aldas/go-modbus-client"
	"github.com/aldas/go-modbus-client/packet"
	"verif/mon"
	"verif/specref"
	"verif/xport"
)

// Client kinds.
const (
	TCP    = 0
	RTUNet = 1
	Serial = 2
)

// KindName names a client kind.
func KindName(k int) string { return [...]string{"tcp", "rtu-net", "serial"}[k] }

// FramingOf the client kind.
func FramingOf(k int) specref.Framing {
	if k == TCP {
		return specref.TCP
	}
	return specref.RTU
}

// Options for one call.
type Options struct {
	ReadTimeout time.Duration
	Hooks       modbus.ClientHooks
	Flusher     bool
	Clock       *xport.Clock
	NilRequest  bool
}

// Outcome of one call.
type Outcome struct {
	Resp    packet.Response
	Err     error
	Panic   string
	Conn    *xport.Conn
	Hung    bool
	Stacks  string
	Elapsed time.Duration
}

// Run performs one Do call against a fresh client and scripted transport.
func Run(kind int, req packet.Request, s xport.Script, o Options) Outcome {
	conn := xport.NewConn(s, o.Clock)
	ctx, cancel := context.WithCancel(context.Background())
	defer cancel()
	conn.Cancel = cancel
	if o.ReadTimeout == 0 {
		o.ReadTimeout = 2 * time.Second
	}
	var do func() (packet.Response, error)
	switch kind {
	case TCP, RTUNet:
		cfg := modbus.ClientConfig{ReadTimeout: o.ReadTimeout, WriteTimeout: time.Second, Hooks: o.Hooks,
			DialContextFunc: func(ctx context.Context, address string) (net.Conn, error) { return conn, nil }}
		var c *modbus.Client
		if kind == TCP {
			c = modbus.NewTCPClientWithConfig(cfg)
		} else {
			c = modbus.NewRTUClientWithConfig(cfg)
		}
		if err := c.Connect(ctx, "verif:1"); err != nil {
			return Outcome{Err: fmt.Errorf("connect: %w", err), Conn: conn}
		}
		do = func() (packet.Response, error) {
			if o.NilRequest {
				return c.Do(ctx, nil)
			}
			return c.Do(ctx, req)
		}
	case Serial:
		opts := []modbus.SerialClientOptionFunc{modbus.WithSerialReadTimeout(o.ReadTimeout)}
		if o.Hooks != nil {
			opts = append(opts, modbus.WithSerialHooks(o.Hooks))
		}
		var c *modbus.SerialClient
		if o.Flusher {
			c = modbus.NewSerialClient(xport.FlushPort{Port: xport.Port{C: conn}}, opts...)
		} else {
			c = modbus.NewSerialClient(xport.Port{C: conn}, opts...)
		}
		do = func() (packet.Response, error) {
			if o.NilRequest {
				return c.Do(ctx, nil)
			}
			return c.Do(ctx, req)
		}
	}
	out := Outcome{Conn: conn}
	done := make(chan struct{})
	start := time.Now()
	go func() {
		defer close(done)
		if p, txt := mon.Catch(func() { out.Resp, out.Err = do() }); p {
			out.Panic = txt
		}
	}()
	select {
	case <-done:
	case <-time.After(o.ReadTimeout*20 + 20*time.Second):
		// watchdog: not a verdict by itself; the caller decides with the transport log
		buf := make([]byte, 1<<16)
		n := runtime.Stack(buf, true)
		select {
		case <-done:
		case <-time.After(40 * time.Second):
			return Outcome{Conn: conn, Hung: true, Stacks: string(buf[:n])}
		}
	}
	out.Elapsed = time.Since(start)
	return out
}

// Package clientx drives (*modbus.Client).Do / (*modbus.SerialClient).Do over a scripted transport.
package clientx

import (
	"context"
	"errors"
	"net"
	"runtime"
	"sync/atomic"
	"time"

	modbus "github.com/aldas/go-modbus-client"
	"github.com/aldas/go-modbus-client/packet"
	"verif/mon"
	"verif/specref"
	"verif/xport"
)

// Client kinds.
const (
	TCP    = 0
	RTUNet = 1
	Serial = 2
)

// KindName names a client kind.
func KindName(k int) string { return [...]string{"tcp", "rtu-net", "serial"}[k] }

// FramingOf the client kind.
func FramingOf(k int) specref.Framing {
	if k == TCP {
		return specref.TCP
	}
	return specref.RTU
}

// Options for a session.
type Options struct {
	ReadTimeout time.Duration
	// ZeroSerialTimeout: the serial client is built with WithSerialReadTimeout(0) (ReadTimeout is then only the harness's
	// idea of how long a call may take).
	ZeroSerialTimeout bool
	// CtxExpired: calls are made with a context whose deadline has already passed.
	CtxExpired bool
	// WriteTimeout of the network clients (default 1 s).
	WriteTimeout time.Duration
	Hooks        modbus.ClientHooks
	Flusher      bool
	Clock        *xport.Clock
	// OnParse, when set (network kinds only), makes the session use modbus.NewClient with a ParseResponseFunc that
	// reports its input before delegating to the library parser of the framing.
	OnParse func(data []byte)
	// Ctor selects how the network client is configured: 0 plain New{TCP,RTU}ClientWithConfig; 1 with ParseResponseFunc set
	// to the library parser of that framing; 2 with AsProtocolErrorFunc set to the library recogniser of that framing; 3 both.
	// (The framing-specific constructors must behave the same for all of them.)
	Ctor int
	// CtxDeadline > 0: calls are made with a context that carries this (distant) deadline in addition to being cancellable.
	CtxDeadline time.Duration
}

// Outcome of one call.
type Outcome struct {
	Resp    packet.Response
	Err     error
	Panic   string
	Conn    *xport.Conn
	Events  []xport.Event
	Hung    bool
	Stacks  string
	Elapsed time.Duration
}

// Hangs counts calls that did not return within the watchdog in this process. Every such call costs >= 20 s, so the
// checks stop scheduling new cases after a few (the violation is established by then).
var Hangs atomic.Int64

// TooManyHangs reports whether the remaining cases should be skipped.
func TooManyHangs() bool { return Hangs.Load() >= 3 }

// Session is one client instance on one scripted transport; several calls can be made on it.
type Session struct {
	// NextDeadline > 0: the next Do (only that one) is made with a context that expires after this long.
	NextDeadline time.Duration
	Kind         int
	Conn         *xport.Conn
	rt           time.Duration
	dl           time.Duration
	exp          bool
	do           func(ctx context.Context, req packet.Request) (packet.Response, error)
}

// NewSession creates the client (connected, for the network kinds).
func NewSession(kind int, o Options) *Session {
	conn := xport.NewConn(xport.Script{Tail: "deadline"}, o.Clock)
	if o.ReadTimeout == 0 {
		o.ReadTimeout = 2 * time.Second
	}
	if o.WriteTimeout == 0 {
		o.WriteTimeout = time.Second
	}
	s := &Session{Kind: kind, Conn: conn, rt: o.ReadTimeout, dl: o.CtxDeadline, exp: o.CtxExpired}
	switch kind {
	case TCP, RTUNet:
		conn.Net = true
		cfg := modbus.ClientConfig{ReadTimeout: o.ReadTimeout, WriteTimeout: o.WriteTimeout, Hooks: o.Hooks,
			DialContextFunc: func(ctx context.Context, address string) (net.Conn, error) { return conn, nil }}
		var c *modbus.Client
		switch {
		case o.OnParse != nil:
			real, asErr := packet.ParseTCPResponse, packet.AsTCPErrorPacket
			if kind == RTUNet {
				real, asErr = packet.ParseRTUResponseWithCRC, packet.AsRTUErrorPacket
			}
			cfg.AsProtocolErrorFunc = asErr
			cfg.ParseResponseFunc = func(data []byte) (packet.Response, error) {
				o.OnParse(data)
				return real(data)
			}
			c = modbus.NewClient(cfg)
		case kind == TCP:
			if o.Ctor&1 != 0 {
				cfg.ParseResponseFunc = packet.ParseTCPResponse
			}
			if o.Ctor&2 != 0 {
				cfg.AsProtocolErrorFunc = packet.AsTCPErrorPacket
			}
			c = modbus.NewTCPClientWithConfig(cfg)
		default:
			if o.Ctor&1 != 0 {
				cfg.ParseResponseFunc = packet.ParseRTUResponseWithCRC
			}
			if o.Ctor&2 != 0 {
				cfg.AsProtocolErrorFunc = packet.AsRTUErrorPacket
			}
			c = modbus.NewRTUClientWithConfig(cfg)
		}
		// the context given to Connect is the connect call's own: the application ends it as soon as Connect has returned
		// (defer cancel()), which is no business of the connection that was established
		cctx, ccancel := context.WithCancel(context.Background())
		_ = c.Connect(cctx, "verif:1")
		ccancel()
		s.do = c.Do
	case Serial:
		opts := []modbus.SerialClientOptionFunc{modbus.WithSerialReadTimeout(o.ReadTimeout)}
		if o.ZeroSerialTimeout {
			opts[0] = modbus.WithSerialReadTimeout(0)
		}
		if o.Hooks != nil {
			opts = append(opts, modbus.WithSerialHooks(o.Hooks))
		} else if serialCtr.Add(1)%2 == 0 {
			// logging switched off the way applications switch it off: the option is given, with a nil value
			opts = append(opts, modbus.WithSerialHooks(nil))
		}
		var c *modbus.SerialClient
		if o.Flusher {
			c = modbus.NewSerialClient(xport.FlushPort{Port: xport.Port{C: conn}}, opts...)
		} else {
			c = modbus.NewSerialClient(xport.Port{C: conn}, opts...)
		}
		s.do = c.Do
	}
	return s
}

// Do performs one call with the given script. A nil req is passed through as a nil request.
func (s *Session) Do(req packet.Request, script xport.Script) Outcome {
	// the caller's context carries a cancellation cause of its own (context.WithCancelCause): what the client reports on
	// cancellation is still the context's error, not the application's private cause
	ctx, cancelCause := context.WithCancelCause(context.Background())
	cancel := func() { cancelCause(errAppCause) }
	defer cancel()
	dl := s.dl
	if s.NextDeadline > 0 {
		dl, s.NextDeadline = s.NextDeadline, 0
	}
	if dl > 0 {
		var c2 context.CancelFunc
		ctx, c2 = context.WithTimeout(ctx, dl)
		defer c2()
	}
	if s.exp {
		var c3 context.CancelFunc
		ctx, c3 = context.WithDeadline(ctx, time.Now().Add(-time.Second))
		defer c3()
	}
	if TooManyHangs() {
		// three calls of this process are already stuck for good: do not queue up more 20-second waits behind them
		return Outcome{Conn: s.Conn, Hung: true, Stacks: "(not run: three earlier calls in this process never returned; see their reports)"}
	}
	s.Conn.Rearm(script, cancel)
	out := Outcome{Conn: s.Conn}
	done := make(chan struct{})
	start := time.Now()
	go func() {
		defer close(done)
		if p, txt := mon.Catch(func() { out.Resp, out.Err = s.do(ctx, req) }); p {
			out.Panic = txt
		}
	}()
	select {
	case <-done:
	case <-time.After(watchdog(s.rt)):
		// watchdog: at least 100x the configured total read timeout plus 8 s; then the goroutine dump is taken and the
		// call gets another 12 s. Only a call that is still not back after both waits is reported as hung (with the stacks).
		buf := make([]byte, 1<<16)
		n := runtime.Stack(buf, true)
		select {
		case <-done:
		case <-time.After(12 * time.Second):
			Hangs.Add(1)
			return Outcome{Conn: s.Conn, Events: s.Conn.Events(), Hung: true, Stacks: string(buf[:n])}
		}
	}
	out.Elapsed = time.Since(start)
	out.Events = s.Conn.Events()
	return out
}

var serialCtr atomic.Int64

var errAppCause = errors.New("verif: the application's own reason for cancelling")

// watchdog: 100x the configured total read timeout (at most 20 s, at least 3x) plus 8 s.
func watchdog(rt time.Duration) time.Duration {
	w := 100 * rt
	if w > 20*time.Second {
		w = 20 * time.Second
	}
	if w < 3*rt {
		w = 3 * rt
	}
	return w + 8*time.Second
}

// Run performs one Do call against a fresh client and scripted transport.
func Run(kind int, req packet.Request, s xport.Script, o Options) Outcome {
	return NewSession(kind, o).Do(req, s)
}

package libx

import (
	"reflect"

	"github.com/aldas/go-modbus-client/packet"
	"verif/specref"
)

// Entry is one byte-consuming parse entry point of the library.
type Entry struct {
	Name    string
	Kind    string // req | resp | hdr | exc | cls
	FC      uint8  // 0 = dispatcher / not function specific
	Framing specref.Framing
	WithCRC bool
	F       func([]byte) (any, error)
}

func w[T any](f func([]byte) (T, error)) func([]byte) (any, error) {
	return func(b []byte) (any, error) { v, err := f(b); return v, err }
}

// IsNilValue reports whether v is nil or a nil pointer / nil interface inside.
func IsNilValue(v any) bool {
	if v == nil {
		return true
	}
	rv := reflect.ValueOf(v)
	switch rv.Kind() {
	case reflect.Ptr, reflect.Interface, reflect.Slice, reflect.Map, reflect.Func, reflect.Chan:
		return rv.IsNil()
	}
	return false
}

// Entries lists every exported function of package packet whose first parameter is []byte and that parses it.
func Entries() []Entry {
	T, R := specref.TCP, specref.RTU
	return []Entry{
		{"ParseTCPRequest", "req", 0, T, false, w(packet.ParseTCPRequest)},
		{"ParseRTURequest", "req", 0, R, false, w(packet.ParseRTURequest)},
		{"ParseRTURequestWithCRC", "req", 0, R, true, w(packet.ParseRTURequestWithCRC)},
		{"ParseTCPResponse", "resp", 0, T, false, w(packet.ParseTCPResponse)},
		{"ParseRTUResponse", "resp", 0, R, false, w(packet.ParseRTUResponse)},
		{"ParseRTUResponseWithCRC", "resp", 0, R, true, w(packet.ParseRTUResponseWithCRC)},

		{"ParseReadCoilsRequestTCP", "req", 1, T, false, w(packet.ParseReadCoilsRequestTCP)},
		{"ParseReadCoilsRequestRTU", "req", 1, R, false, w(packet.ParseReadCoilsRequestRTU)},
		{"ParseReadDiscreteInputsRequestTCP", "req", 2, T, false, w(packet.ParseReadDiscreteInputsRequestTCP)},
		{"ParseReadDiscreteInputsRequestRTU", "req", 2, R, false, w(packet.ParseReadDiscreteInputsRequestRTU)},
		{"ParseReadHoldingRegistersRequestTCP", "req", 3, T, false, w(packet.ParseReadHoldingRegistersRequestTCP)},
		{"ParseReadHoldingRegistersRequestRTU", "req", 3, R, false, w(packet.ParseReadHoldingRegistersRequestRTU)},
		{"ParseReadInputRegistersRequestTCP", "req", 4, T, false, w(packet.ParseReadInputRegistersRequestTCP)},
		{"ParseReadInputRegistersRequestRTU", "req", 4, R, false, w(packet.ParseReadInputRegistersRequestRTU)},
		{"ParseWriteSingleCoilRequestTCP", "req", 5, T, false, w(packet.ParseWriteSingleCoilRequestTCP)},
		{"ParseWriteSingleCoilRequestRTU", "req", 5, R, false, w(packet.ParseWriteSingleCoilRequestRTU)},
		{"ParseWriteSingleRegisterRequestTCP", "req", 6, T, false, w(packet.ParseWriteSingleRegisterRequestTCP)},
		{"ParseWriteSingleRegisterRequestRTU", "req", 6, R, false, w(packet.ParseWriteSingleRegisterRequestRTU)},
		{"ParseWriteMultipleCoilsRequestTCP", "req", 15, T, false, w(packet.ParseWriteMultipleCoilsRequestTCP)},
		{"ParseWriteMultipleCoilsRequestRTU", "req", 15, R, false, w(packet.ParseWriteMultipleCoilsRequestRTU)},
		{"ParseWriteMultipleRegistersRequestTCP", "req", 16, T, false, w(packet.ParseWriteMultipleRegistersRequestTCP)},
		{"ParseWriteMultipleRegistersRequestRTU", "req", 16, R, false, w(packet.ParseWriteMultipleRegistersRequestRTU)},
		{"ParseReadServerIDRequestTCP", "req", 17, T, false, w(packet.ParseReadServerIDRequestTCP)},
		{"ParseReadServerIDRequestRTU", "req", 17, R, false, w(packet.ParseReadServerIDRequestRTU)},
		{"ParseReadWriteMultipleRegistersRequestTCP", "req", 23, T, false, w(packet.ParseReadWriteMultipleRegistersRequestTCP)},
		{"ParseReadWriteMultipleRegistersRequestRTU", "req", 23, R, false, w(packet.ParseReadWriteMultipleRegistersRequestRTU)},

		{"ParseReadCoilsResponseTCP", "resp", 1, T, false, w(packet.ParseReadCoilsResponseTCP)},
		{"ParseReadCoilsResponseRTU", "resp", 1, R, false, w(packet.ParseReadCoilsResponseRTU)},
		{"ParseReadDiscreteInputsResponseTCP", "resp", 2, T, false, w(packet.ParseReadDiscreteInputsResponseTCP)},
		{"ParseReadDiscreteInputsResponseRTU", "resp", 2, R, false, w(packet.ParseReadDiscreteInputsResponseRTU)},
		{"ParseReadHoldingRegistersResponseTCP", "resp", 3, T, false, w(packet.ParseReadHoldingRegistersResponseTCP)},
		{"ParseReadHoldingRegistersResponseRTU", "resp", 3, R, false, w(packet.ParseReadHoldingRegistersResponseRTU)},
		{"ParseReadInputRegistersResponseTCP", "resp", 4, T, false, w(packet.ParseReadInputRegistersResponseTCP)},
		{"ParseReadInputRegistersResponseRTU", "resp", 4, R, false, w(packet.ParseReadInputRegistersResponseRTU)},
		{"ParseWriteSingleCoilResponseTCP", "resp", 5, T, false, w(packet.ParseWriteSingleCoilResponseTCP)},
		{"ParseWriteSingleCoilResponseRTU", "resp", 5, R, false, w(packet.ParseWriteSingleCoilResponseRTU)},
		{"ParseWriteSingleRegisterResponseTCP", "resp", 6, T, false, w(packet.ParseWriteSingleRegisterResponseTCP)},
		{"ParseWriteSingleRegisterResponseRTU", "resp", 6, R, false, w(packet.ParseWriteSingleRegisterResponseRTU)},
		{"ParseWriteMultipleCoilsResponseTCP", "resp", 15, T, false, w(packet.ParseWriteMultipleCoilsResponseTCP)},
		{"ParseWriteMultipleCoilsResponseRTU", "resp", 15, R, false, w(packet.ParseWriteMultipleCoilsResponseRTU)},
		{"ParseWriteMultipleRegistersResponseTCP", "resp", 16, T, false, w(packet.ParseWriteMultipleRegistersResponseTCP)},
		{"ParseWriteMultipleRegistersResponseRTU", "resp", 16, R, false, w(packet.ParseWriteMultipleRegistersResponseRTU)},
		{"ParseReadServerIDResponseTCP", "resp", 17, T, false, w(packet.ParseReadServerIDResponseTCP)},
		{"ParseReadServerIDResponseRTU", "resp", 17, R, false, w(packet.ParseReadServerIDResponseRTU)},
		{"ParseReadWriteMultipleRegistersResponseTCP", "resp", 23, T, false, w(packet.ParseReadWriteMultipleRegistersResponseTCP)},
		{"ParseReadWriteMultipleRegistersResponseRTU", "resp", 23, R, false, w(packet.ParseReadWriteMultipleRegistersResponseRTU)},

		{"ParseMBAPHeader", "hdr", 0, T, false, func(b []byte) (any, error) { h, err := packet.ParseMBAPHeader(b); return h, err }},
		{"AsTCPErrorPacket", "exc", 0, T, false, func(b []byte) (any, error) { return nil, packet.AsTCPErrorPacket(b) }},
		{"AsRTUErrorPacket", "exc", 0, R, false, func(b []byte) (any, error) { return nil, packet.AsRTUErrorPacket(b) }},
		{"LooksLikeModbusTCP", "cls", 0, T, false, func(b []byte) (any, error) { n, err := packet.LooksLikeModbusTCP(b, false); return n, err }},
		{"LooksLikeModbusTCP/allowUnsupported", "cls", 1, T, false, func(b []byte) (any, error) { n, err := packet.LooksLikeModbusTCP(b, true); return n, err }},
	}
}

// Find returns the entry with the given name.
func Find(name string) *Entry {
	for _, e := range Entries() {
		if e.Name == name {
			e := e
			return &e
		}
	}
	return nil
}

// FromLibResponse converts a parsed library response into the reference description.
func FromLibResponse(v any) (p specref.Resp, f specref.Framing, ok bool) {
	ok = true
	u16 := func(b [2]byte) uint16 { return uint16(b[0])<<8 | uint16(b[1]) }
	coil := func(b bool) uint16 {
		if b {
			return 0xFF00
		}
		return 0
	}
	switch r := v.(type) {
	case *packet.ReadCoilsResponseTCP:
		p = specref.Resp{FC: 1, TID: r.TransactionID, Unit: r.UnitID, Data: r.Data}
	case *packet.ReadCoilsResponseRTU:
		p, f = specref.Resp{FC: 1, Unit: r.UnitID, Data: r.Data}, specref.RTU
	case *packet.ReadDiscreteInputsResponseTCP:
		p = specref.Resp{FC: 2, TID: r.TransactionID, Unit: r.UnitID, Data: r.Data}
	case *packet.ReadDiscreteInputsResponseRTU:
		p, f = specref.Resp{FC: 2, Unit: r.UnitID, Data: r.Data}, specref.RTU
	case *packet.ReadHoldingRegistersResponseTCP:
		p = specref.Resp{FC: 3, TID: r.TransactionID, Unit: r.UnitID, Data: r.Data}
	case *packet.ReadHoldingRegistersResponseRTU:
		p, f = specref.Resp{FC: 3, Unit: r.UnitID, Data: r.Data}, specref.RTU
	case *packet.ReadInputRegistersResponseTCP:
		p = specref.Resp{FC: 4, TID: r.TransactionID, Unit: r.UnitID, Data: r.Data}
	case *packet.ReadInputRegistersResponseRTU:
		p, f = specref.Resp{FC: 4, Unit: r.UnitID, Data: r.Data}, specref.RTU
	case *packet.WriteSingleCoilResponseTCP:
		p = specref.Resp{FC: 5, TID: r.TransactionID, Unit: r.UnitID, Addr: r.StartAddress, Value: coil(r.CoilState)}
	case *packet.WriteSingleCoilResponseRTU:
		p, f = specref.Resp{FC: 5, Unit: r.UnitID, Addr: r.StartAddress, Value: coil(r.CoilState)}, specref.RTU
	case *packet.WriteSingleRegisterResponseTCP:
		p = specref.Resp{FC: 6, TID: r.TransactionID, Unit: r.UnitID, Addr: r.Address, Value: u16(r.Data)}
	case *packet.WriteSingleRegisterResponseRTU:
		p, f = specref.Resp{FC: 6, Unit: r.UnitID, Addr: r.Address, Value: u16(r.Data)}, specref.RTU
	case *packet.WriteMultipleCoilsResponseTCP:
		p = specref.Resp{FC: 15, TID: r.TransactionID, Unit: r.UnitID, Addr: r.StartAddress, Qty: r.CoilCount}
	case *packet.WriteMultipleCoilsResponseRTU:
		p, f = specref.Resp{FC: 15, Unit: r.UnitID, Addr: r.StartAddress, Qty: r.CoilCount}, specref.RTU
	case *packet.WriteMultipleRegistersResponseTCP:
		p = specref.Resp{FC: 16, TID: r.TransactionID, Unit: r.UnitID, Addr: r.StartAddress, Qty: r.RegisterCount}
	case *packet.WriteMultipleRegistersResponseRTU:
		p, f = specref.Resp{FC: 16, Unit: r.UnitID, Addr: r.StartAddress, Qty: r.RegisterCount}, specref.RTU
	case *packet.ReadServerIDResponseTCP:
		p = specref.Resp{FC: 17, TID: r.TransactionID, Unit: r.UnitID, ServerID: r.ServerID, Status: r.Status, Additional: r.AdditionalData}
	case *packet.ReadServerIDResponseRTU:
		p, f = specref.Resp{FC: 17, Unit: r.UnitID, ServerID: r.ServerID, Status: r.Status, Additional: r.AdditionalData}, specref.RTU
	case *packet.ReadWriteMultipleRegistersResponseTCP:
		p = specref.Resp{FC: 23, TID: r.TransactionID, Unit: r.UnitID, Data: r.Data}
	case *packet.ReadWriteMultipleRegistersResponseRTU:
		p, f = specref.Resp{FC: 23, Unit: r.UnitID, Data: r.Data}, specref.RTU
	default:
		ok = false
	}
	return
}

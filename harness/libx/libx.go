// Package libx adapts between the reference model's request/response descriptions
// and the library's public constructors, and holds generators shared by the checks.
package libx

import (
	"bytes"
	"fmt"
	"math/rand"
	"reflect"
	"sync/atomic"

	"github.com/aldas/go-modbus-client/packet"
	"verif/specref"
)

// Coils unpacks qty coils from packed bytes (spec layout).
func Coils(data []byte, qty int) []bool {
	out := make([]bool, qty)
	for i := range out {
		if i/8 < len(data) {
			out[i] = specref.CoilBit(data, i)
		}
	}
	return out
}

// ArgMutated is set when a constructor was seen modifying the slice it was given (or the memory behind it). The checks
// that build requests take it with TakeArgMutation after each case.
var ArgMutated atomic.Pointer[string]

// TakeArgMutation returns and clears the last recorded argument mutation ("" if none).
func TakeArgMutation() string {
	if m := ArgMutated.Swap(nil); m != nil {
		return *m
	}
	return ""
}

var tailON = []bool{true, true, true, true, true, true, true, true, true, true, true, true, true, true, true, true}
var tailFF = []byte{0xFF, 0xFF, 0xFF, 0xFF, 0xFF, 0xFF, 0xFF, 0xFF}

// NewRequest calls the library constructor that corresponds to r. For FC15 the
// coil slice is derived from r.Data/r.Qty; for TCP the transaction id is set to r.TID afterwards.
func NewRequest(f specref.Framing, r specref.Req) (packet.Request, error) {
	var req packet.Request
	var err error
	tcp := f == specref.TCP
	switch r.FC {
	case 1:
		if tcp {
			req, err = nilIfErr(packet.NewReadCoilsRequestTCP(r.Unit, r.Addr, r.Qty))
		} else {
			req, err = nilIfErr(packet.NewReadCoilsRequestRTU(r.Unit, r.Addr, r.Qty))
		}
	case 2:
		if tcp {
			req, err = nilIfErr(packet.NewReadDiscreteInputsRequestTCP(r.Unit, r.Addr, r.Qty))
		} else {
			req, err = nilIfErr(packet.NewReadDiscreteInputsRequestRTU(r.Unit, r.Addr, r.Qty))
		}
	case 3:
		if tcp {
			req, err = nilIfErr(packet.NewReadHoldingRegistersRequestTCP(r.Unit, r.Addr, r.Qty))
		} else {
			req, err = nilIfErr(packet.NewReadHoldingRegistersRequestRTU(r.Unit, r.Addr, r.Qty))
		}
	case 4:
		if tcp {
			req, err = nilIfErr(packet.NewReadInputRegistersRequestTCP(r.Unit, r.Addr, r.Qty))
		} else {
			req, err = nilIfErr(packet.NewReadInputRegistersRequestRTU(r.Unit, r.Addr, r.Qty))
		}
	case 5:
		if r.Value != 0 && r.Value != 0xFF00 {
			return nil, fmt.Errorf("constructor takes a bool; value %#x not expressible", r.Value)
		}
		if tcp {
			req, err = nilIfErr(packet.NewWriteSingleCoilRequestTCP(r.Unit, r.Addr, r.Value == 0xFF00))
		} else {
			req, err = nilIfErr(packet.NewWriteSingleCoilRequestRTU(r.Unit, r.Addr, r.Value == 0xFF00))
		}
	case 6:
		d := []byte{byte(r.Value >> 8), byte(r.Value)}
		if tcp {
			req, err = nilIfErr(packet.NewWriteSingleRegisterRequestTCP(r.Unit, r.Addr, d))
		} else {
			req, err = nilIfErr(packet.NewWriteSingleRegisterRequestRTU(r.Unit, r.Addr, d))
		}
	case 15:
		// the coils are handed over the way a caller writing a large image in windows does: as a sub-slice with the rest of
		// the image (here: 16 ON coils) behind it in the same backing array. The constructor must not touch its argument.
		all := append(Coils(r.Data, int(r.Qty)), tailON...)
		coils := all[:int(r.Qty)]
		before := append([]bool(nil), all...)
		if tcp {
			req, err = nilIfErr(packet.NewWriteMultipleCoilsRequestTCP(r.Unit, r.Addr, coils))
		} else {
			req, err = nilIfErr(packet.NewWriteMultipleCoilsRequestRTU(r.Unit, r.Addr, coils))
		}
		for i := range all {
			if all[i] != before[i] {
				m := fmt.Sprintf("NewWriteMultipleCoilsRequest(%d coils passed as image[0:%d] of a %d-coil image): element %d of the caller's image changed from %v to %v", r.Qty, r.Qty, len(all), i, before[i], all[i])
				ArgMutated.Store(&m)
				break
			}
		}
	case 16:
		data := append(append([]byte(nil), r.Data...), tailFF...)[:len(r.Data)]
		if tcp {
			req, err = nilIfErr(packet.NewWriteMultipleRegistersRequestTCP(r.Unit, r.Addr, data))
		} else {
			req, err = nilIfErr(packet.NewWriteMultipleRegistersRequestRTU(r.Unit, r.Addr, data))
		}
		if full := data[:len(r.Data)+len(tailFF)]; !bytes.Equal(full[:len(r.Data)], r.Data) || !bytes.Equal(full[len(r.Data):], tailFF) {
			m := fmt.Sprintf("NewWriteMultipleRegistersRequest(%d data bytes passed as buf[0:%d] of a longer buffer): the caller's buffer changed to % x", len(r.Data), len(r.Data), full)
			ArgMutated.Store(&m)
		}
	case 17:
		if tcp {
			req, err = nilIfErr(packet.NewReadServerIDRequestTCP(r.Unit))
		} else {
			req, err = nilIfErr(packet.NewReadServerIDRequestRTU(r.Unit))
		}
	case 23:
		if tcp {
			req, err = nilIfErr(packet.NewReadWriteMultipleRegistersRequestTCP(r.Unit, r.Addr, r.Qty, r.WAddr, r.Data))
		} else {
			req, err = nilIfErr(packet.NewReadWriteMultipleRegistersRequestRTU(r.Unit, r.Addr, r.Qty, r.WAddr, r.Data))
		}
	default:
		return nil, fmt.Errorf("no constructor for fc %d", r.FC)
	}
	if err != nil {
		return nil, err
	}
	if tcp {
		SetTID(req, r.TID)
	}
	return req, nil
}

// nilIfErr converts a typed (*T, error) pair into (packet.Request, error) without producing a non-nil interface around a nil pointer.
func nilIfErr[T packet.Request](v T, err error) (packet.Request, error) {
	if err != nil {
		return nil, err
	}
	return v, nil
}

// SetTID overwrites the exported transaction id of a TCP request.
func SetTID(req packet.Request, tid uint16) {
	switch q := req.(type) {
	case *packet.ReadCoilsRequestTCP:
		q.TransactionID = tid
	case *packet.ReadDiscreteInputsRequestTCP:
		q.TransactionID = tid
	case *packet.ReadHoldingRegistersRequestTCP:
		q.TransactionID = tid
	case *packet.ReadInputRegistersRequestTCP:
		q.TransactionID = tid
	case *packet.WriteSingleCoilRequestTCP:
		q.TransactionID = tid
	case *packet.WriteSingleRegisterRequestTCP:
		q.TransactionID = tid
	case *packet.WriteMultipleCoilsRequestTCP:
		q.TransactionID = tid
	case *packet.WriteMultipleRegistersRequestTCP:
		q.TransactionID = tid
	case *packet.ReadServerIDRequestTCP:
		q.TransactionID = tid
	case *packet.ReadWriteMultipleRegistersRequestTCP:
		q.TransactionID = tid
	}
}

// RandBytes fills n bytes with a pattern chosen by the PRNG (uniform, all 0, all FF, high bits, counting).
func RandBytes(rng *rand.Rand, n int) []byte {
	b := make([]byte, n)
	switch rng.Intn(6) {
	case 0:
		for i := range b {
			b[i] = 0
		}
	case 1:
		for i := range b {
			b[i] = 0xFF
		}
	case 2:
		for i := range b {
			b[i] = 0x80 | byte(rng.Intn(128))
		}
	case 3:
		for i := range b {
			b[i] = byte(i + 1)
		}
	default:
		rng.Read(b)
	}
	return b
}

var boundary16 = []uint16{0, 1, 2, 0x7F, 0x80, 0xFF, 0x100, 0x101, 0x7FFF, 0x8000, 0xFF00, 0xFFFE, 0xFFFF}

// U16 picks a 16-bit value: boundary values half of the time.
func U16(rng *rand.Rand) uint16 {
	if rng.Intn(2) == 0 {
		return boundary16[rng.Intn(len(boundary16))]
	}
	return uint16(rng.Intn(65536))
}

// U8 picks an 8-bit value: boundary values half of the time.
func U8(rng *rand.Rand) uint8 {
	if rng.Intn(2) == 0 {
		return []uint8{0, 1, 0x7F, 0x80, 0xFE, 0xFF, 16, 17}[rng.Intn(8)]
	}
	return uint8(rng.Intn(256))
}

// LegalReq draws a legal request of function fc. size in [0,1] steers the quantity (0 = minimum, 1 = maximum, otherwise PRNG).
func LegalReq(rng *rand.Rand, fc uint8, size float64) specref.Req {
	r := specref.Req{FC: fc, Unit: U8(rng), TID: U16(rng), Addr: U16(rng)}
	pick := func(lo, hi int) int {
		switch {
		case size <= 0:
			return lo
		case size >= 1:
			return hi
		}
		return lo + rng.Intn(hi-lo+1)
	}
	switch fc {
	case 1, 2:
		r.Qty = uint16(pick(1, 2000))
	case 3, 4:
		r.Qty = uint16(pick(1, 125))
	case 5:
		r.Value = []uint16{0, 0xFF00}[rng.Intn(2)]
	case 6:
		r.Value = U16(rng)
	case 15:
		r.Qty = uint16(pick(1, 1968))
		r.Data = RandBytes(rng, (int(r.Qty)+7)/8)
		if k := int(r.Qty) % 8; k != 0 { // padding bits are zero in a frame the constructors can emit
			r.Data[len(r.Data)-1] &= byte(1<<uint(k)) - 1
		}
	case 16:
		r.Qty = uint16(pick(1, 123))
		r.Data = RandBytes(rng, 2*int(r.Qty))
	case 17:
	case 23:
		r.Qty = uint16(pick(1, 124)) // constructor limit is 124 (spec: 125)
		r.WAddr = U16(rng)
		r.WQty = uint16(pick(1, 121))
		r.Data = RandBytes(rng, 2*int(r.WQty))
	}
	return r
}

// ReplyFor builds a well-formed reply to a legal request with PRNG content (what a conforming device could answer).
func ReplyFor(rng *rand.Rand, q specref.Req) specref.Resp {
	p := specref.Resp{FC: q.FC, Unit: q.Unit, TID: q.TID}
	switch q.FC {
	case 1, 2:
		p.Data = RandBytes(rng, (int(q.Qty)+7)/8)
	case 3, 4, 23:
		p.Data = RandBytes(rng, 2*int(q.Qty))
	case 5, 6:
		p.Addr, p.Value = q.Addr, q.Value
	case 15, 16:
		p.Addr, p.Qty = q.Addr, q.Qty
	case 17:
		p.ServerID = RandBytes(rng, 1+rng.Intn(20))
		p.Status = []uint8{0, 0xFF}[rng.Intn(2)]
		p.Additional = RandBytes(rng, rng.Intn(12))
	}
	return p
}

// RunPattern returns n coils made of alternating runs whose lengths are drawn from values around byte and word
// boundaries (1..9, 15..17, 31..33, 63..65, 127..129, 200) and whose first run starts ON or OFF at random, so that long
// runs begin and end at aligned and unaligned positions.
func RunPattern(rng *rand.Rand, n int) []bool {
	out := make([]bool, n)
	lens := []int{1, 2, 3, 7, 8, 9, 15, 16, 17, 24, 31, 32, 33, 40, 48, 56, 63, 64, 65, 72, 96, 127, 128, 129, 200}
	on := rng.Intn(2) == 0
	i := 0
	if rng.Intn(2) == 0 { // random lead-in so that runs start off the byte grid
		i = rng.Intn(9)
		for k := 0; k < i && k < n; k++ {
			out[k] = !on
		}
	}
	for i < n {
		l := lens[rng.Intn(len(lens))]
		for k := 0; k < l && i < n; k++ {
			out[i] = on
			i++
		}
		on = !on
	}
	return out
}

// ValueForm returns the value (non-pointer) form of a parsed response when that form implements packet.Response too
// (the library's response methods have value receivers, so callers may hold either form); otherwise resp itself.
func ValueForm(resp packet.Response) packet.Response {
	v := reflect.ValueOf(resp)
	if v.Kind() != reflect.Ptr || v.IsNil() {
		return resp
	}
	if r, ok := v.Elem().Interface().(packet.Response); ok {
		return r
	}
	return resp
}

// SetProtocolID overwrites the exported MBAPHeader.ProtocolID of a TCP request (any type embedding packet.MBAPHeader);
// reports whether the request has such a field.
func SetProtocolID(req packet.Request, v uint16) bool {
	rv := reflect.ValueOf(req)
	if rv.Kind() != reflect.Ptr || rv.IsNil() {
		return false
	}
	f := rv.Elem().FieldByName("MBAPHeader")
	if !f.IsValid() {
		return false
	}
	p := f.FieldByName("ProtocolID")
	if !p.IsValid() || !p.CanSet() {
		return false
	}
	p.SetUint(uint64(v))
	return true
}

// Readdress overwrites the exported TransactionID and UnitID of a request value in place (what a gateway handler does
// before it forwards the request); reports whether both fields were found.
func Readdress(req packet.Request, tid uint16, unit uint8) bool {
	rv := reflect.ValueOf(req)
	if rv.Kind() != reflect.Ptr || rv.IsNil() {
		return false
	}
	t, u := rv.Elem().FieldByName("TransactionID"), rv.Elem().FieldByName("UnitID")
	if !t.IsValid() || !u.IsValid() || !t.CanSet() || !u.CanSet() {
		return false
	}
	t.SetUint(uint64(tid))
	u.SetUint(uint64(unit))
	return true
}

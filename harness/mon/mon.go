// Package mon is the monitor runtime shared by all property checks: it drives a
// deterministic case list through the property's oracle, collects what the
// oracle observed (evaluations, distinct non-trivial keys, coverage tables,
// samples), matches violations against the committed known-findings file,
// writes replay files and the evidence file.
package mon

import (
	"bufio"
	"encoding/json"
	"fmt"
	"hash/fnv"
	"math/rand"
	"os"
	"os/exec"
	"path/filepath"
	"regexp"
	"runtime"
	"runtime/debug"
	"sort"
	"strings"
	"sync"
	"sync/atomic"
	"time"
)

// Attrs is the attribute map of a violation; together with the kind it forms
// the signature that is compared with KNOWN_FINDINGS.txt.
type Attrs map[string]any

// Spec describes one property check.
type Spec struct {
	ID          string
	Level       string // evidence level: exploration | fault_enumeration
	Rule        string // how cases are generated and what makes one distinct/non-trivial
	RuleAdd     string // families of cases and oracles added after the first version (appended to Rule in the evidence)
	Assumptions []string
	// NewCase returns a pointer to a zero case value (for JSON decoding in replay / child mode).
	NewCase func() any
	// Gen emits the deterministic case list for the tier.
	Gen func(g *Gen)
	// Run executes one case against the real code and reports through r.
	Run func(c any, r *Rec)
	// Finish runs once after all cases (global oracles over accumulated state).
	Finish func(r *Rec)
	// SelfTest checks the trusted base (reference models) before anything runs.
	SelfTest func() error
	// Exhaustive reports whether the tier enumerates a finite space completely (see Rule).
	Exhaustive bool
	// Isolated: execute cases in child processes (process-fatal failures identify their case).
	Isolated bool
	// BatchSize is the number of cases per child process in isolated mode.
	BatchSize int
	// Workers is the in-process parallelism (0 = NumCPU).
	Workers int
	// ChildWorkers is the parallelism inside one child process (0 = 1).
	ChildWorkers int
	// MinDistinct: a run with fewer distinct non-trivial observations is inconclusive.
	MinDistinct int
	// Race: the check is meant to run from the -race binary; race logs are collected.
	Race bool
}

// Gen is handed to Spec.Gen.
type Gen struct {
	Tier  string
	Seed  int64
	Rng   *rand.Rand
	emit  func(any)
	Count int
}

// Emit hands one case to the runtime.
func (g *Gen) Emit(c any) { g.Count++; g.emit(c) }

// Thorough reports whether the thorough tier was requested.
func (g *Gen) Thorough() bool { return g.Tier == "thorough" }

// Pick returns q in quick tier, t in thorough.
func (g *Gen) Pick(q, t int) int {
	if g.Thorough() {
		return t
	}
	return q
}

type violation struct {
	Kind   string `json:"kind"`
	Attrs  Attrs  `json:"attrs"`
	Detail string `json:"detail"`
	Case   any    `json:"case"`
	Count  int64  `json:"count"`
	sig    string
}

type sample struct {
	h uint64
	v json.RawMessage
}

const nShards = 64

// Rec records what the monitors observed. All methods are safe for concurrent use.
type Rec struct {
	spec  *Spec
	Tier  string
	Seed  int64
	evals atomic.Int64

	shards [nShards]struct {
		mu sync.Mutex
		m  map[uint64]struct{}
	}

	mu        sync.Mutex
	cover     map[string]map[string]int64
	viol      map[string]*violation
	known     map[int]int64 // finding index -> observed count
	knownEx   map[int]string
	samples   []sample
	sampleN   uint64
	inconc    []string
	notes     map[string]any
	findings  []Finding
	curCase   any
	violTotal atomic.Int64
	opt       Options
	childSeq  atomic.Int64
}

func newRec(s *Spec, tier string, seed int64, findings []Finding) *Rec {
	r := &Rec{spec: s, Tier: tier, Seed: seed, findings: findings}
	for i := range r.shards {
		r.shards[i].m = map[uint64]struct{}{}
	}
	r.cover = map[string]map[string]int64{}
	r.viol = map[string]*violation{}
	r.known = map[int]int64{}
	r.knownEx = map[int]string{}
	r.notes = map[string]any{}
	return r
}

// Thorough reports whether the thorough tier was requested.
func (r *Rec) Thorough() bool { return r.Tier == "thorough" }

// Eval counts n oracle decisions.
func (r *Rec) Eval(n int) { r.evals.Add(int64(n)) }

// Distinct registers a distinct non-trivial key.
func (r *Rec) Distinct(key uint64) {
	sh := &r.shards[key%nShards]
	sh.mu.Lock()
	sh.m[key] = struct{}{}
	sh.mu.Unlock()
}

// DistinctS registers a distinct non-trivial key given as a string.
func (r *Rec) DistinctS(key string) { r.Distinct(HashS(key)) }

// HashS hashes a string with FNV-1a.
func HashS(s string) uint64 {
	h := fnv.New64a()
	h.Write([]byte(s))
	return h.Sum64()
}

// HashB hashes bytes with FNV-1a.
func HashB(b []byte) uint64 {
	h := fnv.New64a()
	h.Write(b)
	return h.Sum64()
}

// Mix combines integers into one key.
func Mix(vs ...uint64) uint64 {
	h := uint64(1469598103934665603)
	for _, v := range vs {
		for i := 0; i < 8; i++ {
			h ^= (v >> (8 * i)) & 0xff
			h *= 1099511628211
		}
	}
	return h
}

// Cover counts an observation in a named coverage table.
func (r *Rec) Cover(axis, value string) { r.CoverN(axis, value, 1) }

// CoverN adds n to a coverage table cell.
func (r *Rec) CoverN(axis, value string, n int64) {
	r.mu.Lock()
	m := r.cover[axis]
	if m == nil {
		m = map[string]int64{}
		r.cover[axis] = m
	}
	m[value] += n
	r.mu.Unlock()
}

// Note stores an extra evidence key.
func (r *Rec) Note(key string, v any) {
	r.mu.Lock()
	r.notes[key] = v
	r.mu.Unlock()
}

// NoteAdd adds to an integer evidence key.
func (r *Rec) NoteAdd(key string, n int64) {
	r.mu.Lock()
	cur, _ := r.notes[key].(int64)
	r.notes[key] = cur + n
	r.mu.Unlock()
}

// Sample offers an observed case for the evidence file; a deterministic subset is kept.
func (r *Rec) Sample(v any) {
	n := atomic.AddUint64(&r.sampleN, 1)
	// cheap pre-filter: after warm-up only a small fraction is marshalled
	if n > 64 && n%257 != 0 {
		return
	}
	b, err := json.Marshal(v)
	if err != nil {
		return
	}
	if len(b) > 1500 {
		b, _ = json.Marshal(string(b[:1400]) + "...(truncated)")
	}
	h := HashB(b)
	r.mu.Lock()
	r.samples = append(r.samples, sample{h, b})
	if len(r.samples) > 32 {
		sort.Slice(r.samples, func(i, j int) bool { return r.samples[i].h < r.samples[j].h })
		r.samples = r.samples[:8]
	}
	r.mu.Unlock()
}

// Inconclusive records a reason why the run cannot be counted as "held".
func (r *Rec) Inconclusive(reason string) {
	r.mu.Lock()
	if len(r.inconc) < 50 {
		r.inconc = append(r.inconc, reason)
	}
	r.mu.Unlock()
}

func sigOf(kind string, a Attrs) string {
	keys := make([]string, 0, len(a))
	for k := range a {
		keys = append(keys, k)
	}
	sort.Strings(keys)
	var sb strings.Builder
	sb.WriteString(kind)
	for _, k := range keys {
		fmt.Fprintf(&sb, " %s=%v", k, a[k])
	}
	return sb.String()
}

// Violate reports that the oracle refuted the property on case c. kind and
// attrs name the call site / input class; detail is free text for the witness.
func (r *Rec) Violate(c any, kind string, attrs Attrs, detail string) {
	r.violTotal.Add(1)
	for i, f := range r.findings {
		if f.Fixed || f.Property != r.spec.ID {
			continue
		}
		if f.Matches(kind, attrs) {
			r.mu.Lock()
			r.known[i]++
			if _, ok := r.knownEx[i]; !ok {
				r.knownEx[i] = sigOf(kind, attrs) + " :: " + trunc(detail, 300)
			}
			r.mu.Unlock()
			return
		}
	}
	sig := sigOf(kind, attrs)
	r.mu.Lock()
	v := r.viol[sig]
	if v == nil {
		if len(r.viol) < 400 {
			r.viol[sig] = &violation{Kind: kind, Attrs: attrs, Detail: trunc(detail, 6000), Case: c, Count: 1, sig: sig}
		} else if o := r.viol["(overflow)"]; o != nil {
			o.Count++
		} else {
			r.viol["(overflow)"] = &violation{Kind: "overflow", Attrs: Attrs{}, Detail: "more than 400 distinct violation signatures; first overflow: " + sig, Case: c, Count: 1, sig: "(overflow)"}
		}
	} else {
		v.Count++
	}
	r.mu.Unlock()
}

func trunc(s string, n int) string {
	if len(s) > n {
		return s[:n] + "...(truncated)"
	}
	return s
}

// Catch runs f and converts a panic into (true, text).
func Catch(f func()) (panicked bool, text string) {
	defer func() {
		if x := recover(); x != nil {
			panicked = true
			text = fmt.Sprint(x)
		}
	}()
	f()
	return
}

// ---------------------------------------------------------------------------------------
// known findings

// Finding is one line of KNOWN_FINDINGS.txt.
type Finding struct {
	Fixed    bool
	Property string
	Kind     string
	Match    map[string]any
	Text     string
	Raw      string
}

var findingRe = regexp.MustCompile(`^finding:\s+property=(\S+)\s+kind=(\S+)\s+match=(\{.*?\})\s+::\s+(.*)$`)
var fixedRe = regexp.MustCompile(`^fixed:\s+property=(\S+)\s+(.*)$`)

// LoadFindings parses the known-findings file. The file is only ever read.
func LoadFindings(path string) ([]Finding, error) {
	f, err := os.Open(path)
	if err != nil {
		if os.IsNotExist(err) {
			return nil, nil
		}
		return nil, err
	}
	defer f.Close()
	var out []Finding
	sc := bufio.NewScanner(f)
	sc.Buffer(make([]byte, 1<<20), 1<<20)
	ln := 0
	for sc.Scan() {
		ln++
		line := strings.TrimSpace(sc.Text())
		if line == "" || strings.HasPrefix(line, "#") {
			continue
		}
		if m := findingRe.FindStringSubmatch(line); m != nil {
			var match map[string]any
			if err := json.Unmarshal([]byte(m[3]), &match); err != nil {
				return nil, fmt.Errorf("KNOWN_FINDINGS line %d: bad match json: %v", ln, err)
			}
			out = append(out, Finding{Property: m[1], Kind: m[2], Match: match, Text: m[4], Raw: line})
			continue
		}
		if m := fixedRe.FindStringSubmatch(line); m != nil {
			out = append(out, Finding{Fixed: true, Property: m[1], Text: m[2], Raw: line})
			continue
		}
		return nil, fmt.Errorf("KNOWN_FINDINGS line %d: unparsable: %q", ln, line)
	}
	return out, sc.Err()
}

func toF(v any) (float64, bool) {
	switch x := v.(type) {
	case int:
		return float64(x), true
	case int64:
		return float64(x), true
	case uint16:
		return float64(x), true
	case uint8:
		return float64(x), true
	case uint64:
		return float64(x), true
	case uint32:
		return float64(x), true
	case int32:
		return float64(x), true
	case float64:
		return x, true
	}
	return 0, false
}

func scalarEq(want, got any) bool {
	if wf, ok := toF(want); ok {
		gf, ok2 := toF(got)
		return ok2 && wf == gf
	}
	switch w := want.(type) {
	case string:
		return fmt.Sprint(got) == w
	case bool:
		g, ok := got.(bool)
		return ok && g == w
	}
	return false
}

// Matches reports whether a violation (kind, attrs) is covered by the finding.
// Every key of Match must be present in attrs and satisfy: scalar -> equality;
// {"in":[...]} -> membership; {"range":[lo,hi]} -> inclusive numeric range.
func (f Finding) Matches(kind string, attrs Attrs) bool {
	if f.Kind != kind {
		return false
	}
	for k, want := range f.Match {
		got, ok := attrs[k]
		if !ok {
			return false
		}
		switch w := want.(type) {
		case map[string]any:
			if lst, ok := w["in"].([]any); ok {
				hit := false
				for _, e := range lst {
					if scalarEq(e, got) {
						hit = true
						break
					}
				}
				if !hit {
					return false
				}
			} else if rg, ok := w["range"].([]any); ok && len(rg) == 2 {
				lo, _ := toF(rg[0])
				hi, _ := toF(rg[1])
				g, ok := toF(got)
				if !ok || g < lo || g > hi {
					return false
				}
			} else {
				return false
			}
		default:
			if !scalarEq(want, got) {
				return false
			}
		}
	}
	return true
}

// ---------------------------------------------------------------------------------------
// driver

// Options for Main.
type Options struct {
	Tier      string
	Seed      int64
	VerifDir  string
	Replay    string
	ChildIn   string
	ChildOut  string
	ChildLog  string
	RaceBuilt bool
}

type childResult struct {
	Evals   int64                       `json:"evals"`
	Keys    []uint64                    `json:"keys"`
	Cover   map[string]map[string]int64 `json:"cover"`
	Viol    []*violation                `json:"viol"`
	Known   map[int]int64               `json:"known"`
	KnownEx map[int]string              `json:"known_ex"`
	Samples []json.RawMessage           `json:"samples"`
	Inconc  []string                    `json:"inconc"`
	Notes   map[string]any              `json:"notes"`
}

func (r *Rec) export() *childResult {
	cr := &childResult{Evals: r.evals.Load(), Cover: r.cover, Known: r.known, KnownEx: r.knownEx, Inconc: r.inconc, Notes: r.notes}
	for i := range r.shards {
		for k := range r.shards[i].m {
			cr.Keys = append(cr.Keys, k)
		}
	}
	for _, v := range r.viol {
		cr.Viol = append(cr.Viol, v)
	}
	for _, s := range r.samples {
		cr.Samples = append(cr.Samples, s.v)
	}
	return cr
}

func (r *Rec) merge(cr *childResult) {
	r.evals.Add(cr.Evals)
	for _, k := range cr.Keys {
		r.Distinct(k)
	}
	r.mu.Lock()
	defer r.mu.Unlock()
	for a, m := range cr.Cover {
		mm := r.cover[a]
		if mm == nil {
			mm = map[string]int64{}
			r.cover[a] = mm
		}
		for k, v := range m {
			mm[k] += v
		}
	}
	for _, v := range cr.Viol {
		v.sig = sigOf(v.Kind, v.Attrs)
		if o := r.viol[v.sig]; o != nil {
			o.Count += v.Count
		} else {
			r.viol[v.sig] = v
		}
		r.violTotal.Add(v.Count)
	}
	for i, n := range cr.Known {
		r.known[i] += n
		r.violTotal.Add(n)
	}
	for i, s := range cr.KnownEx {
		if _, ok := r.knownEx[i]; !ok {
			r.knownEx[i] = s
		}
	}
	for _, s := range cr.Samples {
		r.samples = append(r.samples, sample{HashB(s), s})
	}
	r.inconc = append(r.inconc, cr.Inconc...)
	for k, v := range cr.Notes {
		if f, ok := v.(float64); ok {
			cur, _ := r.notes[k].(int64)
			r.notes[k] = cur + int64(f)
		} else if _, ok := r.notes[k]; !ok {
			r.notes[k] = v
		}
	}
}

// Main runs a spec according to the options and returns the process exit code.
func Main(s *Spec, o Options) int {
	debug.SetGCPercent(400)
	start := time.Now()
	findings, err := LoadFindings(filepath.Join(o.VerifDir, "KNOWN_FINDINGS.txt"))
	if err != nil {
		fmt.Printf("INCONCLUSIVE property=%s reason=%v\n", s.ID, err)
		return 2
	}
	rec := newRec(s, o.Tier, o.Seed, findings)
	rec.opt = o

	if o.ChildIn != "" {
		return childMain(s, o, rec)
	}
	if s.SelfTest != nil {
		if err := s.SelfTest(); err != nil {
			fmt.Printf("INCONCLUSIVE property=%s reason=trusted-base self-test failed: %v\n", s.ID, err)
			return 2
		}
	}
	if o.Replay != "" {
		return replayMain(s, o, rec)
	}

	g := &Gen{Tier: o.Tier, Seed: o.Seed, Rng: rand.New(rand.NewSource(o.Seed*7919 + int64(HashS(s.ID)%100000)))}
	if s.Isolated {
		var cases []any
		g.emit = func(c any) { cases = append(cases, c) }
		s.Gen(g)
		runIsolated(s, o, rec, cases)
	} else {
		nw := s.Workers
		if nw <= 0 {
			nw = runtime.NumCPU()
		}
		ch := make(chan any, 1024)
		var wg sync.WaitGroup
		for i := 0; i < nw; i++ {
			wg.Add(1)
			go func() {
				defer wg.Done()
				for c := range ch {
					runOne(s, rec, c)
				}
			}()
		}
		g.emit = func(c any) { ch <- c }
		s.Gen(g)
		close(ch)
		wg.Wait()
	}
	if s.Finish != nil {
		s.Finish(rec)
	}
	if s.Race && o.RaceBuilt {
		collectRaceLogs(s, o, rec, os.Getenv("VERIF_RACE_LOG"), nil)
	}
	return finish(s, o, rec, g.Count, time.Since(start))
}

func runOne(s *Spec, rec *Rec, c any) {
	defer func() {
		if x := recover(); x != nil {
			rec.Violate(c, "harness-or-library-panic", Attrs{"where": "outside-recover"}, fmt.Sprintf("%v\n%s", x, debug.Stack()))
		}
	}()
	s.Run(c, rec)
}

func replayMain(s *Spec, o Options, rec *Rec) int {
	b, err := os.ReadFile(o.Replay)
	if err != nil {
		fmt.Printf("INCONCLUSIVE property=%s reason=%v\n", s.ID, err)
		return 2
	}
	var rp struct {
		Case json.RawMessage `json:"case"`
	}
	if err := json.Unmarshal(b, &rp); err != nil || rp.Case == nil {
		fmt.Printf("INCONCLUSIVE property=%s reason=bad replay file %v\n", s.ID, err)
		return 2
	}
	c := s.NewCase()
	if err := json.Unmarshal(rp.Case, c); err != nil {
		fmt.Printf("INCONCLUSIVE property=%s reason=bad replay case %v\n", s.ID, err)
		return 2
	}
	rec.findings = nil // replay shows everything, known or not
	runOne(s, rec, c)
	if len(rec.viol) == 0 {
		fmt.Printf("REPLAY property=%s: case held on the current tree (%d evaluations)\n", s.ID, rec.evals.Load())
		return 0
	}
	for _, v := range rec.viol {
		fmt.Printf("REPLAY property=%s violated: %s\n  detail: %s\n", s.ID, v.sig, v.Detail)
	}
	fmt.Printf("VIOLATION property=%s replay=%s\n", s.ID, o.Replay)
	return 1
}

// InChild reports whether this process is a child started by the isolated mode or by RunInFreshProcess.
func (r *Rec) InChild() bool { return r.opt.ChildIn != "" }

// RunInFreshProcess executes the given cases of the same spec in ONE new process of this binary and merges what it
// observed into r (used for properties of a process's first moments, e.g. concurrent first use). A crash of the child is
// reported as a process-crash violation of the first case.
func (r *Rec) RunInFreshProcess(cases []any) {
	// one directory per call: cases run on several goroutines, and a directory shared between them could be removed by
	// one call (when it happened to be empty) just before another wrote its input file into it
	seq := int(r.childSeq.Add(1))
	dir := filepath.Join(r.opt.VerifDir, ".build", "runs", fmt.Sprintf("%s-fresh-%d-%d", r.spec.ID, os.Getpid(), seq))
	os.MkdirAll(dir, 0o755)
	runBatch(r.spec, r.opt, r, dir, seq, cases)
	os.RemoveAll(dir)
}

// ---- isolated (child process) mode ----

func childMain(s *Spec, o Options, rec *Rec) int {
	b, err := os.ReadFile(o.ChildIn)
	if err != nil {
		fmt.Fprintln(os.Stderr, "child: ", err)
		return 3
	}
	var raws []json.RawMessage
	if err := json.Unmarshal(b, &raws); err != nil {
		fmt.Fprintln(os.Stderr, "child: ", err)
		return 3
	}
	lf, err := os.OpenFile(o.ChildLog, os.O_CREATE|os.O_WRONLY|os.O_APPEND, 0o644)
	if err != nil {
		fmt.Fprintln(os.Stderr, "child: ", err)
		return 3
	}
	nw := s.ChildWorkers
	if nw <= 0 {
		nw = 1
	}
	var lmu sync.Mutex
	logf := func(format string, a ...any) {
		lmu.Lock()
		fmt.Fprintf(lf, format, a...)
		lmu.Unlock()
	}
	type job struct {
		i int
		c any
	}
	ch := make(chan job)
	var wg sync.WaitGroup
	for w := 0; w < nw; w++ {
		wg.Add(1)
		go func() {
			defer wg.Done()
			for j := range ch {
				logf("START %d\n", j.i)
				t0 := time.Now()
				runOne(s, rec, j.c)
				if d := time.Since(t0); d > 10*time.Second && os.Getenv("VERIF_SLOW") != "" {
					b, _ := json.Marshal(j.c)
					if f, err := os.OpenFile(os.Getenv("VERIF_SLOW"), os.O_APPEND|os.O_CREATE|os.O_WRONLY, 0o644); err == nil {
						fmt.Fprintf(f, "SLOW-CASE %s %s %s\n", s.ID, d.Round(time.Second), b)
						f.Close()
					}
				}
				logf("DONE %d\n", j.i)
			}
		}()
	}
	for i, raw := range raws {
		c := s.NewCase()
		if err := json.Unmarshal(raw, c); err != nil {
			fmt.Fprintln(os.Stderr, "child: bad case", err)
			return 3
		}
		ch <- job{i, c}
	}
	close(ch)
	wg.Wait()
	out, _ := json.Marshal(rec.export())
	if err := os.WriteFile(o.ChildOut, out, 0o644); err != nil {
		fmt.Fprintln(os.Stderr, "child: ", err)
		return 3
	}
	logf("END\n")
	lf.Close()
	return 0
}

func runIsolated(s *Spec, o Options, rec *Rec, cases []any) {
	bs := s.BatchSize
	if bs <= 0 {
		bs = 50
	}
	type batch struct {
		idx   int
		cases []any
	}
	var batches []batch
	for i := 0; i < len(cases); i += bs {
		j := i + bs
		if j > len(cases) {
			j = len(cases)
		}
		batches = append(batches, batch{len(batches), cases[i:j]})
	}
	dir := filepath.Join(o.VerifDir, ".build", "runs", fmt.Sprintf("%s-%d", s.ID, os.Getpid()))
	os.RemoveAll(dir)
	os.MkdirAll(dir, 0o755)
	defer os.RemoveAll(dir)
	par := runtime.NumCPU()
	if s.ChildWorkers > 1 {
		par = runtime.NumCPU() / s.ChildWorkers
		if par < 1 {
			par = 1
		}
	}
	if v := os.Getenv("VERIF_CHILD_PAR"); v != "" {
		fmt.Sscan(v, &par)
	}
	sem := make(chan struct{}, par)
	var wg sync.WaitGroup
	for _, b := range batches {
		wg.Add(1)
		sem <- struct{}{}
		go func(b batch) {
			defer wg.Done()
			defer func() { <-sem }()
			runBatch(s, o, rec, dir, b.idx, b.cases)
		}(b)
	}
	wg.Wait()
}

func runBatch(s *Spec, o Options, rec *Rec, dir string, idx int, cases []any) {
	attempt := 0
	for len(cases) > 0 && attempt < 6 {
		attempt++
		base := filepath.Join(dir, fmt.Sprintf("b%d_%d", idx, attempt))
		in, _ := json.Marshal(cases)
		os.WriteFile(base+".in.json", in, 0o644)
		raceLog := base + ".race"
		cmd := exec.Command(os.Args[0], "-prop", s.ID, "-tier", o.Tier, "-seed", fmt.Sprint(o.Seed), "-verif", o.VerifDir,
			"-child-in", base+".in.json", "-child-out", base+".out.json", "-child-log", base+".log")
		cmd.Env = append(os.Environ(), "GORACE=halt_on_error=0 log_path="+raceLog, "GOTRACEBACK=all")
		errf, _ := os.Create(base + ".stderr")
		cmd.Stdout = errf
		cmd.Stderr = errf
		done := make(chan error, 1)
		if err := cmd.Start(); err != nil {
			rec.Inconclusive("cannot start child: " + err.Error())
			errf.Close()
			return
		}
		go func() { done <- cmd.Wait() }()
		wd := 600 * time.Second
		var werr error
		timedOut := false
		select {
		case werr = <-done:
		case <-time.After(wd):
			timedOut = true
			cmd.Process.Signal(os.Interrupt)
			cmd.Process.Signal(sigQuit)
			select {
			case werr = <-done:
			case <-time.After(20 * time.Second):
				cmd.Process.Kill()
				werr = <-done
			}
		}
		errf.Close()
		if s.Race && o.RaceBuilt {
			collectRaceLogs(s, o, rec, raceLog, cases)
		}
		if b, err := os.ReadFile(base + ".out.json"); err == nil && werr == nil {
			var cr childResult
			if json.Unmarshal(b, &cr) == nil {
				rec.merge(&cr)
				cleanup(base)
				return
			}
		}
		// child died: find the case(s) in flight
		started, doneSet := map[int]bool{}, map[int]bool{}
		if lb, err := os.ReadFile(base + ".log"); err == nil {
			for _, ln := range strings.Split(string(lb), "\n") {
				var i int
				if n, _ := fmt.Sscanf(ln, "START %d", &i); n == 1 {
					started[i] = true
				} else if n, _ := fmt.Sscanf(ln, "DONE %d", &i); n == 1 {
					doneSet[i] = true
				}
			}
		}
		stderrTail := tailFile(base+".stderr", 6000)
		var inflight []int
		for i := range started {
			if !doneSet[i] {
				inflight = append(inflight, i)
			}
		}
		sort.Ints(inflight)
		if timedOut {
			rec.Inconclusive(fmt.Sprintf("child batch %d watchdog fired (in flight: %v): %s", idx, inflight, trunc(stderrTail, 1500)))
			cleanup(base)
			return
		}
		if len(inflight) == 0 {
			rec.Inconclusive(fmt.Sprintf("child batch %d died (%v) with no case in flight: %s", idx, werr, trunc(stderrTail, 800)))
			cleanup(base)
			return
		}
		crashIdx := inflight[0]
		attrs := Attrs{"signal": crashClass(stderrTail)}
		if ca, ok := cases[crashIdx].(interface{ CrashAttrs() Attrs }); ok {
			for k, v := range ca.CrashAttrs() {
				attrs[k] = v
			}
		}
		rec.Violate(cases[crashIdx], "process-crash", attrs, fmt.Sprintf("child process died (%v) while executing this case; stderr tail:\n%s", werr, stderrTail))
		// results of the finished cases of this batch are lost with the process; re-run all but the crashing case
		rest := make([]any, 0, len(cases))
		for i, c := range cases {
			if i != crashIdx {
				rest = append(rest, c)
			}
		}
		cases = rest
		cleanup(base)
	}
}

func cleanup(base string) {
	m, _ := filepath.Glob(base + "*")
	for _, f := range m {
		os.Remove(f)
	}
}

func tailFile(path string, n int) string {
	b, err := os.ReadFile(path)
	if err != nil {
		return ""
	}
	s := string(b)
	// prefer the part around the panic / fatal error header
	for _, mk := range []string{"panic: ", "fatal error: "} {
		if i := strings.Index(s, mk); i >= 0 {
			s = s[i:]
			if len(s) > n {
				s = s[:n]
			}
			return s
		}
	}
	if len(s) > n {
		s = s[len(s)-n:]
	}
	return s
}

func crashClass(stderr string) string {
	switch {
	case strings.Contains(stderr, "nil pointer dereference"):
		return "nil-deref"
	case strings.Contains(stderr, "fatal error: concurrent map"):
		return "concurrent-map"
	case strings.Contains(stderr, "fatal error:"):
		return "fatal-error"
	case strings.Contains(stderr, "panic:"):
		return "panic"
	}
	return "unknown"
}

// ---- race logs ----

var frameRe = regexp.MustCompile(`^\s+(github\.com/aldas/go-modbus-client\S*?)\(\)\s*$`)

// collectRaceLogs parses race detector logs written with log_path=prefix and
// turns each report into a violation keyed by the pair of top-most library frames.
func collectRaceLogs(s *Spec, o Options, rec *Rec, prefix string, cases []any) {
	if prefix == "" {
		return
	}
	files, _ := filepath.Glob(prefix + ".*")
	for _, f := range files {
		b, err := os.ReadFile(f)
		if err != nil {
			continue
		}
		reports := strings.Split(string(b), "==================")
		for _, rp := range reports {
			if !strings.Contains(rp, "WARNING: DATA RACE") {
				continue
			}
			rec.NoteAdd("race_reports", 1)
			// split into stacks; take first library frame of the first two stacks
			var tops []string
			for _, blk := range strings.Split(rp, "\n\n") {
				if len(tops) >= 2 {
					break
				}
				hdr := strings.TrimSpace(strings.SplitN(strings.TrimSpace(blk), "\n", 2)[0])
				if !(strings.Contains(hdr, "Read at") || strings.Contains(hdr, "Write at") || strings.Contains(hdr, "Previous read at") || strings.Contains(hdr, "Previous write at") || strings.Contains(hdr, "WARNING: DATA RACE")) {
					continue
				}
				top := "(no library frame)"
				for _, ln := range strings.Split(blk, "\n") {
					if m := frameRe.FindStringSubmatch(ln); m != nil {
						top = strings.TrimPrefix(m[1], "github.com/aldas/go-modbus-client")
						break
					}
				}
				if strings.Contains(hdr, "WARNING: DATA RACE") && !strings.Contains(blk, " at 0x") {
					continue
				}
				tops = append(tops, top)
			}
			sort.Strings(tops)
			var cs any
			note := ""
			if len(cases) > 0 {
				// the race log of a child process cannot be attributed to one case of its batch: the first case is stored as
				// the replay case, the batch size is given in the detail (replay with the -race worker; a race needs its interleaving)
				cs = cases[0]
				note = fmt.Sprintf("[reported by a child process that ran a batch of %d cases; the stored case is the first of them]\n", len(cases))
			}
			rec.Violate(cs, "data-race", Attrs{"frames": strings.Join(tops, " | ")}, note+trunc(rp, 5000))
		}
		os.Remove(f)
	}
}

// ---- end of run ----

func finish(s *Spec, o Options, rec *Rec, cases int, wall time.Duration) int {
	distinct := 0
	for i := range rec.shards {
		distinct += len(rec.shards[i].m)
	}
	minD := s.MinDistinct
	if minD < 2 {
		minD = 2
	}
	if distinct < minD {
		rec.Inconclusive(fmt.Sprintf("only %d distinct non-trivial observations (minimum %d)", distinct, minD))
	}
	// violations -> replay files
	var sigs []string
	for sg := range rec.viol {
		sigs = append(sigs, sg)
	}
	sort.Strings(sigs)
	exit := 0
	outDir := o.VerifDir
	if d := os.Getenv("VERIF_OUT_DIR"); d != "" { // drills write their evidence/replays elsewhere
		outDir = d
	}
	rdir := filepath.Join(outDir, "replays", s.ID)
	for i, sg := range sigs {
		v := rec.viol[sg]
		exit = 1
		if i >= 25 {
			continue
		}
		os.MkdirAll(rdir, 0o755)
		path := filepath.Join(rdir, fmt.Sprintf("%016x.json", HashS(sg)))
		b, _ := json.MarshalIndent(map[string]any{
			"property": s.ID, "signature": sg, "kind": v.Kind, "attrs": v.Attrs, "detail": v.Detail,
			"occurrences": v.Count, "tier": o.Tier, "seed": o.Seed, "case": v.Case,
		}, "", " ")
		os.WriteFile(path, b, 0o644)
		fmt.Printf("VIOLATION property=%s replay=%s\n", s.ID, path)
		fmt.Printf("  signature: %s (x%d)\n  detail: %s\n", sg, v.Count, trunc(strings.ReplaceAll(v.Detail, "\n", "\n    "), 1200))
	}
	if len(sigs) > 25 {
		fmt.Printf("  ... and %d more distinct violation signatures\n", len(sigs)-25)
	}
	knownObs := map[string]any{}
	for i, f := range rec.findings {
		if f.Fixed || f.Property != s.ID {
			continue
		}
		n := rec.known[i]
		fmt.Printf("KNOWN-FINDING: property=%s %s (kind=%s, observed %d times this run)\n", s.ID, f.Text, f.Kind, n)
		knownObs[f.Kind+" "+mustJSON(f.Match)] = map[string]any{"observed": n, "example": rec.knownEx[i]}
	}
	if exit == 0 && len(rec.inconc) > 0 {
		exit = 2
		for i, rs := range rec.inconc {
			if i >= 5 {
				break
			}
			fmt.Printf("INCONCLUSIVE property=%s reason=%s\n", s.ID, trunc(strings.ReplaceAll(rs, "\n", " | "), 1500))
		}
	}
	// evidence
	sort.Slice(rec.samples, func(i, j int) bool { return rec.samples[i].h < rec.samples[j].h })
	var samples []json.RawMessage
	for i, sm := range rec.samples {
		if i >= 8 {
			break
		}
		samples = append(samples, sm.v)
	}
	if len(samples) == 0 {
		samples = append(samples, json.RawMessage(`"(no sample recorded)"`))
	}
	cov := map[string]any{
		"evaluations":             rec.evals.Load(),
		"distinct_nontrivial":     distinct,
		"rule":                    strings.TrimSpace(s.Rule + " " + s.RuleAdd),
		"samples":                 samples,
		"exhaustive":              s.Exhaustive,
		"cases":                   cases,
		"axes":                    summarizeCover(rec.cover),
		"known_findings_observed": knownObs,
		"violating_observations":  rec.violTotal.Load(),
		"inconclusive":            rec.inconc,
		"race_detector":           s.Race && o.RaceBuilt,
	}
	for k, v := range rec.notes {
		cov[k] = v
	}
	ev := map[string]any{
		"property_id": s.ID, "tier": o.Tier, "seed": o.Seed, "level": s.Level,
		"coverage": cov, "assumptions": s.Assumptions, "wall_s": float64(int(wall.Seconds()*100)) / 100,
		"violations": len(sigs),
	}
	b, _ := json.MarshalIndent(ev, "", " ")
	os.MkdirAll(filepath.Join(outDir, "evidence"), 0o755)
	if err := os.WriteFile(filepath.Join(outDir, "evidence", s.ID+".json"), b, 0o644); err != nil {
		fmt.Printf("INCONCLUSIVE property=%s reason=cannot write evidence: %v\n", s.ID, err)
		if exit == 0 {
			exit = 2
		}
	}
	verdict := map[int]string{0: "HELD", 1: "VIOLATED", 2: "INCONCLUSIVE"}[exit]
	fmt.Printf("%s property=%s tier=%s seed=%d cases=%d evaluations=%d distinct=%d unlisted_violation_signatures=%d wall=%.1fs\n",
		verdict, s.ID, o.Tier, o.Seed, cases, rec.evals.Load(), distinct, len(sigs), wall.Seconds())
	return exit
}

func mustJSON(v any) string {
	b, _ := json.Marshal(v)
	return string(b)
}

// summarizeCover keeps coverage tables small: tables with many cells are reduced to cell count and totals.
func summarizeCover(c map[string]map[string]int64) map[string]any {
	out := map[string]any{}
	for a, m := range c {
		if len(m) <= 48 {
			out[a] = m
			continue
		}
		var tot int64
		for _, v := range m {
			tot += v
		}
		out[a] = map[string]any{"cells": len(m), "total": tot}
	}
	return out
}

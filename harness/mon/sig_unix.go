package mon

import "syscall"

var sigQuit = syscall.SIGQUIT

// Package xport provides harness-owned transports: a scripted net.Conn / serial port whose every
// call is logged, so that monitors can decide properties on the sequence of transport events.
package xport

import (
	"errors"
	"fmt"
	"io"
	"io/fs"
	"net"
	"os"
	"strconv"
	"sync"
	"sync/atomic"
	"syscall"
	"time"
)

// ErrInjected is the I/O error the scripts inject.
var ErrInjected = errors.New("verif: injected transport error")

// ReadStep is one scripted Read: hand out up to N bytes of the reply, and/or return Err.
type ReadStep struct {
	N   int    `json:"n"`
	Err string `json:"err,omitempty"` // "" | "deadline" | "eof" | "inject" | "deadline-wrapped" | "eof-wrapped"; N > 0 together with Err hands over bytes AND the error in one Read
	// SleepMs > 0: the Read blocks this long (real time) before it returns, as a slow device would make it.
	SleepMs int `json:"sleep_ms,omitempty"`
}

// Script describes what the transport does after the request has been written.
type Script struct {
	Reply []byte     `json:"reply"`
	Steps []ReadStep `json:"steps"`
	// After the steps are exhausted every further Read returns this: "deadline" (idle forever), "deadline-wrapped", "eof",
	// "inject", "zero" (0 bytes and no error, for ever).
	Tail string `json:"tail"`
	// WriteErr makes Write fail with ErrInjected.
	WriteErr bool `json:"write_err,omitempty"`
	// CancelAtRead > 0: the k-th Read (1-based) calls Cancel before returning a timed-out read.
	CancelAtRead int `json:"cancel_at_read,omitempty"`
	// FlushErr makes Flush fail (serial).
	FlushErr bool `json:"flush_err,omitempty"`
	// DeadConn: once the request has been written the connection is dead the way a locally closed socket is: the
	// deadline setters fail, and so does every Read, all with the connection's injected error.
	DeadConn bool `json:"dead_conn,omitempty"`
	// NoReadDeadline: the connection does not support read deadlines (an adapter that puts a stream without them behind
	// net.Conn): SetReadDeadline fails with os.ErrNoDeadline, reads block until bytes are there.
	NoReadDeadline bool `json:"no_read_deadline,omitempty"`
	// WriteSleepMs: Write takes this long (a serial line at a low baud rate drains a long request slowly).
	WriteSleepMs int `json:"write_sleep_ms,omitempty"`
}

// Event is one logged transport call.
type Event struct {
	Seq int64  `json:"seq"`
	Op  string `json:"op"` // write | read | close | flush | rdeadline | wdeadline
	N   int    `json:"n"`
	Err string `json:"err,omitempty"` // class: "" | deadline | eof | inject | other text
	// ErrText is the exact Error() text of the error the call returned.
	ErrText string `json:"err_text,omitempty"`
	Data    []byte `json:"data,omitempty"`
	// Total reply bytes handed over after this event.
	Total int `json:"total"`
	// Expired: a read that found its deadline already in the past (not one of the script's reads).
	Expired bool `json:"expired,omitempty"`
	// Truncated: the transport had more bytes ready in this burst than the caller's buffer could take.
	Truncated bool `json:"truncated,omitempty"`
}

// Clock is a shared logical clock so transport events and hook events can be ordered.
type Clock struct{ n atomic.Int64 }

// Tick returns the next stamp.
func (c *Clock) Tick() int64 { return c.n.Add(1) }

// Conn is a scripted transport. It implements net.Conn and io.ReadWriteCloser.
type Conn struct {
	// NoAddr: LocalAddr/RemoteAddr are not known to this connection (nil).
	NoAddr bool
	mu     sync.Mutex
	S      Script
	Clock  *Clock
	Cancel func()
	Log    []Event
	pos    int // reply cursor
	step   int
	reads  int
	idle   int
	Writes [][]byte
	closed bool
	// Net: behave like a network connection as far as deadlines go. A Read whose deadline has already passed times out
	// at once without handing anything over; an empty read with NO deadline set blocks until the connection is closed
	// (the client that forgets the deadline hangs, as it would on a socket); a Write after its deadline fails.
	Net          bool
	rdl, wdl     time.Time
	unblock      chan struct{}
	ExpiredReads int
	// injErr is THE error value this connection returns for "inject" reads and failed writes: ErrInjected inside a
	// wrapper of its own (as socket errors come inside *net.OpError), so that a caller can ask errors.Is(err, conn.InjectedErr())
	injErr error
}

// InjectedErr returns the wrapper instance this connection hands out for injected I/O failures.
func (c *Conn) InjectedErr() error { return c.injErr }

// NewConn creates a scripted connection.
func NewConn(s Script, clk *Clock) *Conn {
	if clk == nil {
		clk = &Clock{}
	}
	k := connCtr.Add(1)
	noAddr := k%3 == 0 // every third connection does not know its addresses
	return &Conn{S: s, Clock: clk, NoAddr: noAddr, unblock: make(chan struct{}), injErr: flavour(s)}
}

// flavour picks the shape of the connection's injected I/O failure from the script itself, so that two runs of one
// script (with and without hooks, say) meet the same failure: plain; "connection timed out" (a permanent error whose
// Timeout() says true - not a poll deadline); connection reset by peer; an interrupted system call.
func flavour(s Script) error {
	h := uint32(2166136261)
	mix := func(b byte) { h = (h ^ uint32(b)) * 16777619 }
	for _, b := range s.Reply {
		mix(b)
	}
	for _, st := range s.Steps {
		mix(byte(st.N))
		mix(byte(len(st.Err)))
	}
	mix(byte(len(s.Tail)))
	var inner error = ErrInjected
	switch (h >> 8) % 10 {
	case 0, 1:
		inner = connReset{}
	case 2, 3:
		inner = interrupted{}
	case 4, 5, 6:
		inner = permanentTimeout{}
	}
	return &net.OpError{Op: "read", Net: "verif", Err: inner}
}

func kindErr(k string) error {
	switch k {
	case "deadline":
		return os.ErrDeadlineExceeded
	case "eof":
		return io.EOF
	case "inject":
		return ErrInjected
	case "deadline-wrapped": // what an *os.File tty or a net.Conn reports: the sentinel inside a wrapping error
		return &fs.PathError{Op: "read", Path: "/dev/ttyVERIF", Err: os.ErrDeadlineExceeded}
	case "eof-wrapped":
		return fmt.Errorf("port adapter: %w", io.EOF)
	}
	return nil
}

func errName(err error) string {
	switch {
	case err == nil:
		return ""
	case errors.Is(err, os.ErrDeadlineExceeded):
		return "deadline"
	case errors.Is(err, io.EOF):
		return "eof"
	case errors.Is(err, ErrInjected):
		return "inject"
	}
	return err.Error()
}

func (c *Conn) log(op string, n int, err error, data []byte) {
	ev := Event{Seq: c.Clock.Tick(), Op: op, N: n, Err: errName(err), Data: append([]byte(nil), data...), Total: c.pos}
	if err != nil {
		ev.ErrText = err.Error()
	}
	c.Log = append(c.Log, ev)
}

// forcedExpiry: harness self-test knob. VERIF_EXPIRE_EVERY=n makes every n-th read of a network connection find its
// deadline expired, which is what a heavily loaded machine does now and then; every check must stay silent under it.
var expireEvery = func() int64 { n, _ := strconv.Atoi(os.Getenv("VERIF_EXPIRE_EVERY")); return int64(n) }()
var expireCtr atomic.Int64

func forcedExpiry() bool { return expireEvery > 0 && expireCtr.Add(1)%expireEvery == 0 }

var connCtr atomic.Int64

// permanentTimeout is ErrInjected in the shape of a kernel "connection timed out": a net.Error with Timeout() == true that
// is nevertheless final.
type permanentTimeout struct{}

func (permanentTimeout) Error() string        { return ErrInjected.Error() } // same text: outcomes of two runs are compared by text
func (permanentTimeout) Timeout() bool        { return true }
func (permanentTimeout) Temporary() bool      { return false }
func (permanentTimeout) Is(target error) bool { return target == ErrInjected }

// connReset is ErrInjected in the shape of "connection reset by peer": errors.Is(err, syscall.ECONNRESET) holds.
type connReset struct{}

func (connReset) Error() string { return ErrInjected.Error() } // same text, see permanentTimeout
func (connReset) Is(target error) bool {
	return target == ErrInjected || target == error(syscall.ECONNRESET)
}

// interrupted is ErrInjected in the shape of an interrupted system call: errors.Is(err, syscall.EINTR) holds.
type interrupted struct{}

func (interrupted) Error() string { return ErrInjected.Error() } // same text, see permanentTimeout
func (interrupted) Is(target error) bool {
	return target == ErrInjected || target == error(syscall.EINTR)
}

// Read follows the script.
func (c *Conn) Read(p []byte) (int, error) {
	c.mu.Lock()
	if c.Net && !c.rdl.IsZero() && (time.Now().After(c.rdl) || forcedExpiry()) {
		// (also what happens when the machine is so loaded that the deadline passes between SetReadDeadline and Read:
		// the client polls again; no scripted step is consumed and the read does not count as one of the script's reads.
		// It is logged - the client's hook sees it - but marked, so that rules counting the script's reads can skip it)
		c.ExpiredReads++
		c.log("read", 0, os.ErrDeadlineExceeded, nil)
		c.Log[len(c.Log)-1].Expired = true
		c.mu.Unlock()
		return 0, os.ErrDeadlineExceeded
	}
	c.reads++
	if c.S.DeadConn {
		c.log("read", 0, c.injErr, nil)
		c.mu.Unlock()
		return 0, c.injErr
	}
	var n int
	var err error
	sleep := 0
	truncated := false
	if c.Net && c.rdl.IsZero() && !c.closed {
		empty := c.step >= len(c.S.Steps) && (c.S.Tail == "" || c.S.Tail == "deadline" || c.S.Tail == "deadline-wrapped")
		if c.step < len(c.S.Steps) {
			st := c.S.Steps[c.step]
			empty = st.N == 0 && (st.Err == "deadline" || st.Err == "deadline-wrapped")
		}
		if empty {
			ch := c.unblock
			c.mu.Unlock()
			<-ch // nothing to read and no deadline: a socket read never returns
			return 0, io.ErrClosedPipe
		}
	}
	if c.S.CancelAtRead > 0 && c.reads == c.S.CancelAtRead && c.Cancel != nil {
		c.Cancel()
	}
	if c.step < len(c.S.Steps) {
		st := c.S.Steps[c.step]
		c.step++
		n = st.N
		sleep = st.SleepMs
		if n > len(c.S.Reply)-c.pos {
			n = len(c.S.Reply) - c.pos
		}
		if n > len(p) {
			n = len(p)
			truncated = true
		}
		copy(p, c.S.Reply[c.pos:c.pos+n])
		c.pos += n
		err = kindErr(st.Err)
		if st.Err == "inject" {
			err = c.injErr
		}
	} else {
		err = kindErr(c.S.Tail)
		if c.S.Tail == "inject" {
			err = c.injErr
		}
		if err == nil && c.S.Tail != "zero" { // "zero": a port whose read timeout shows as (0, nil)
			err = os.ErrDeadlineExceeded
		}
		c.idle++
	}
	c.log("read", n, err, p[:n])
	c.Log[len(c.Log)-1].Truncated = truncated
	idle := c.idle
	c.mu.Unlock()
	if sleep > 0 {
		time.Sleep(time.Duration(sleep) * time.Millisecond)
	}
	if idle > 40 {
		time.Sleep(150 * time.Microsecond) // keep a spinning client from burning the CPU; not part of any verdict
	}
	return n, err
}

// Write records the request.
func (c *Conn) Write(p []byte) (int, error) {
	c.mu.Lock()
	ws := c.S.WriteSleepMs
	c.mu.Unlock()
	if ws > 0 {
		time.Sleep(time.Duration(ws) * time.Millisecond)
	}
	c.mu.Lock()
	defer c.mu.Unlock()
	if c.S.WriteErr {
		c.log("write", 0, c.injErr, p)
		return 0, c.injErr
	}
	if c.Net && c.closed {
		c.log("write", 0, errUseOfClosed, p)
		return 0, errUseOfClosed
	}
	if c.Net && !c.wdl.IsZero() && time.Now().After(c.wdl) {
		c.log("write", 0, os.ErrDeadlineExceeded, p)
		return 0, os.ErrDeadlineExceeded
	}
	c.Writes = append(c.Writes, append([]byte(nil), p...))
	c.log("write", len(p), nil, p)
	return len(p), nil
}

// Close logs.
func (c *Conn) Close() error {
	c.mu.Lock()
	defer c.mu.Unlock()
	if !c.closed && c.unblock != nil {
		close(c.unblock)
	}
	c.closed = true
	c.log("close", 0, nil, nil)
	return nil
}

// Rearm installs a new script for the next exchange on the same connection and clears the log.
func (c *Conn) Rearm(s Script, cancel func()) {
	c.mu.Lock()
	defer c.mu.Unlock()
	c.S = s
	c.injErr = flavour(s)
	c.Cancel = cancel
	c.pos, c.step, c.reads, c.idle = 0, 0, 0, 0
	c.Log = nil
	c.Writes = nil
}

// Delivered reports how many reply bytes have been handed over.
func (c *Conn) Delivered() int { c.mu.Lock(); defer c.mu.Unlock(); return c.pos }

// Events returns a copy of the log.
func (c *Conn) Events() []Event {
	c.mu.Lock()
	defer c.mu.Unlock()
	return append([]Event(nil), c.Log...)
}

// ReadsAfterComplete counts Read calls issued after the whole reply had been handed over.
func (c *Conn) ReadsAfterComplete() int {
	c.mu.Lock()
	defer c.mu.Unlock()
	n := 0
	full := false
	for _, e := range c.Log {
		if e.Op != "read" || e.Expired {
			continue
		}
		if full {
			n++
		}
		if e.Total >= len(c.S.Reply) && len(c.S.Reply) > 0 {
			full = true
		}
	}
	return n
}

type addr string

func (a addr) Network() string { return "verif" }
func (a addr) String() string  { return string(a) }

func (c *Conn) LocalAddr() net.Addr {
	if c.NoAddr {
		return nil
	}
	return addr("local")
}

// RemoteAddr: net.Conn promises the remote address only "if known"; connections that do not know it (NoAddr) return nil.
func (c *Conn) RemoteAddr() net.Addr {
	if c.NoAddr {
		return nil
	}
	return addr("remote")
}
func (c *Conn) SetDeadline(t time.Time) error {
	c.mu.Lock()
	c.rdl, c.wdl = t, t
	c.mu.Unlock()
	return nil
}
func (c *Conn) SetReadDeadline(t time.Time) error {
	c.mu.Lock()
	defer c.mu.Unlock()
	if c.S.DeadConn && len(c.Writes) > 0 {
		c.log("rdeadline", 0, c.injErr, nil)
		return c.injErr
	}
	if c.Net && c.closed {
		c.log("rdeadline", 0, errUseOfClosed, nil)
		return errUseOfClosed
	}
	if c.S.NoReadDeadline {
		c.log("rdeadline", 0, os.ErrNoDeadline, nil)
		return os.ErrNoDeadline
	}
	c.rdl = t
	c.log("rdeadline", 0, nil, nil)
	return nil
}
func (c *Conn) SetWriteDeadline(t time.Time) error {
	c.mu.Lock()
	if c.Net && c.closed { // a socket somebody closed: every further call on it fails
		c.log("wdeadline", 0, errUseOfClosed, nil)
		c.mu.Unlock()
		return errUseOfClosed
	}
	c.wdl = t
	c.log("wdeadline", 0, nil, nil)
	c.mu.Unlock()
	return nil
}

// errUseOfClosed is what a closed socket answers every further call with.
var errUseOfClosed error = &net.OpError{Op: "use", Net: "verif", Err: net.ErrClosed}

// Port is a scripted serial port: Conn without the net.Conn extras, optionally a Flusher.
type Port struct{ C *Conn }

func (p Port) Read(b []byte) (int, error)  { return p.C.Read(b) }
func (p Port) Write(b []byte) (int, error) { return p.C.Write(b) }
func (p Port) Close() error                { return p.C.Close() }

// FlushPort is a Port that also implements Flush.
type FlushPort struct{ Port }

// Flush logs and optionally fails.
func (p FlushPort) Flush() error {
	p.C.mu.Lock()
	defer p.C.mu.Unlock()
	if p.C.S.FlushErr {
		p.C.log("flush", 0, ErrInjected, nil)
		return ErrInjected
	}
	p.C.log("flush", 0, nil, nil)
	return nil
}

// Cuts turns a sorted list of cut positions (0 < c < L) into read steps, inserting k timed-out reads at every cut.
func Cuts(L int, cuts []int, timeoutsAtCut int) []ReadStep {
	var steps []ReadStep
	prev := 0
	for _, c := range cuts {
		if c <= prev || c >= L {
			continue
		}
		steps = append(steps, ReadStep{N: c - prev})
		for k := 0; k < timeoutsAtCut; k++ {
			steps = append(steps, ReadStep{Err: "deadline"})
		}
		prev = c
	}
	steps = append(steps, ReadStep{N: L - prev})
	return steps
}

// Package regref is the reference model of typed register decoding, written from the
// documentation of packet/registers.go and of the FieldType constants; it does not import the library.
package regref

import (
	"fmt"
	"math"
)

// Order flags (same numeric values as the library's documented ByteOrder constants).
type Order uint8

const (
	Default       Order = 0
	BigEndian     Order = 1
	LittleEndian  Order = 2
	LowWordFirst  Order = 4
	HighWordFirst Order = 8
)

// Orders are the seven documented orders the model covers.
var Orders = []Order{Default, BigEndian, LittleEndian, BigEndian | LowWordFirst, BigEndian | HighWordFirst, LittleEndian | LowWordFirst, LittleEndian | HighWordFirst}

// ViewDefault is the order a fresh Registers view uses when none is given.
const ViewDefault = BigEndian | HighWordFirst

// Window is a register payload: wire bytes of count registers starting at Start (integer arithmetic).
type Window struct {
	Start int
	Data  []byte // 2*count bytes
}

// Count of registers.
func (w Window) Count() int { return len(w.Data) / 2 }

// Contains reports whether size registers at addr all lie in the window.
func (w Window) Contains(addr, size int) bool {
	return size >= 1 && addr >= w.Start && addr+size <= w.Start+w.Count()
}

// Wire returns the wire bytes of size registers at addr (caller checked Contains).
func (w Window) Wire(addr, size int) []byte {
	o := (addr - w.Start) * 2
	return w.Data[o : o+2*size]
}

// Words returns the wire bytes with the order of the 16-bit words reversed when LowWordFirst is set.
func Words(wire []byte, o Order) []byte {
	out := make([]byte, len(wire))
	n := len(wire) / 2
	for i := 0; i < n; i++ {
		src := i
		if o&LowWordFirst != 0 {
			src = n - 1 - i
		}
		out[2*i], out[2*i+1] = wire[2*src], wire[2*src+1]
	}
	return out
}

// Uint decodes size registers (1, 2 or 4) as an unsigned integer: words reordered for LowWordFirst, then little- or big-endian.
func Uint(wire []byte, o Order) uint64 {
	b := Words(wire, o)
	var v uint64
	if o&LittleEndian != 0 {
		for i := len(b) - 1; i >= 0; i-- {
			v = v<<8 | uint64(b[i])
		}
	} else {
		for i := 0; i < len(b); i++ {
			v = v<<8 | uint64(b[i])
		}
	}
	return v
}

// Resolve maps Default to the view's default order.
func Resolve(o, viewDefault Order) Order {
	if o == Default {
		return viewDefault
	}
	return o
}

// Bit k of the register (bit k of the big-endian register value).
func Bit(wire []byte, k int) bool {
	v := uint16(wire[0])<<8 | uint16(wire[1])
	return v&(1<<uint(k)) != 0
}

// Byte of a register: high byte = first wire byte.
func Byte(wire []byte, high bool) byte {
	if high {
		return wire[0]
	}
	return wire[1]
}

// StringRegs is the number of registers a string of length bytes occupies.
func StringRegs(length int) int { return (length + 1) / 2 }

// String decodes: bytes of each register swapped when the order has the BigEndian flag, first length bytes kept,
// cut at the first NUL, one rune per byte.
func String(wire []byte, length int, o Order) string {
	b := append([]byte{}, wire...)
	if o&BigEndian != 0 {
		for i := 0; i+1 < len(b); i += 2 {
			b[i], b[i+1] = b[i+1], b[i]
		}
	}
	var rs []rune
	for _, c := range b[:length] {
		if c == 0 {
			break
		}
		rs = append(rs, rune(c))
	}
	return string(rs)
}

// Float32 from bits.
func Float32(bits uint32) float32 { return math.Float32frombits(bits) }

// SelfTest checks the model against literal expectations (semantics of the documentation tables in registers.go).
func SelfTest() error {
	w := []byte{0xAE, 0x41, 0x56, 0x52}
	// doc table: AE41 5652 is big endian high word first = 2923517522
	if v := Uint(w, BigEndian|HighWordFirst); v != 2923517522 {
		return fmt.Errorf("BE HWF: %d", v)
	}
	// 5652 AE41 on the wire is big endian low word first for the same number
	if v := Uint([]byte{0x56, 0x52, 0xAE, 0x41}, BigEndian|LowWordFirst); v != 2923517522 {
		return fmt.Errorf("BE LWF: %d", v)
	}
	// 5256 41AE: low byte first, low word first
	if v := Uint([]byte{0x52, 0x56, 0x41, 0xAE}, LittleEndian|HighWordFirst); v != 2923517522 {
		return fmt.Errorf("LE: %d", v)
	}
	if v := Uint([]byte{0x41, 0xAE, 0x52, 0x56}, LittleEndian|LowWordFirst); v != 2923517522 {
		return fmt.Errorf("LE LWF: %d", v)
	}
	if v := Uint([]byte{0x01, 0x02}, BigEndian); v != 0x0102 {
		return fmt.Errorf("u16 be")
	}
	if v := Uint([]byte{0x01, 0x02}, LittleEndian); v != 0x0201 {
		return fmt.Errorf("u16 le")
	}
	if !Bit([]byte{0x80, 0x01}, 0) || !Bit([]byte{0x80, 0x01}, 15) || Bit([]byte{0x80, 0x01}, 1) {
		return fmt.Errorf("bit")
	}
	// TestRegisters_string convention: wire "VS\x00..." style: with the BigEndian flag bytes of each register are swapped
	if s := String([]byte{'S', 'V', 'W', 'E', 0, 'R'}, 6, BigEndian|HighWordFirst); s != "VSEWR" {
		return fmt.Errorf("string be: %q", s)
	}
	if s := String([]byte{'A', 'B', 'C', 0}, 3, LittleEndian); s != "ABC" {
		return fmt.Errorf("string le: %q", s)
	}
	if s := String([]byte{0xE4, 'A'}, 2, LittleEndian); s != "äA" {
		return fmt.Errorf("string latin1: %q", s)
	}
	return nil
}

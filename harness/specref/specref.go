// Package specref is an independent, executable statement of the parts of
// "MODBUS Application Protocol Specification V1.1b3" and "MODBUS Messaging on
// TCP/IP Implementation Guide V1.0b" the properties refer to. It never imports
// the library under test.
package specref

import (
	"errors"
	"fmt"
)

// Framing of an ADU.
type Framing int

const (
	TCP Framing = 0
	RTU Framing = 1
)

func (f Framing) String() string {
	if f == TCP {
		return "tcp"
	}
	return "rtu"
}

// Function codes covered.
var FCs = []uint8{1, 2, 3, 4, 5, 6, 15, 16, 17, 23}

// Supported reports whether fc is one of the ten function codes.
func Supported(fc uint8) bool {
	for _, f := range FCs {
		if f == fc {
			return true
		}
	}
	return false
}

// MaxADU is the largest legal ADU: 260 bytes on TCP (7 MBAP + 253 PDU), 256 on serial line.
func MaxADU(f Framing) int {
	if f == TCP {
		return 260
	}
	return 256
}

// CRC is the Modbus RTU CRC-16 computed by the textbook bit-serial shift
// register: init 0xFFFF; message bits enter LSB first; reflected polynomial 0xA001.
func CRC(msg []byte) uint16 {
	return CRCFrom(0xFFFF, msg)
}

// CRCFrom continues the shift register from state st.
func CRCFrom(st uint16, msg []byte) uint16 {
	for _, b := range msg {
		for i := uint(0); i < 8; i++ {
			in := (b >> i) & 1
			fb := uint8(st&1) ^ in
			st >>= 1
			if fb == 1 {
				st ^= 0xA001
			}
		}
	}
	return st
}

// Req is a request at PDU level plus the addressing of its ADU.
type Req struct {
	FC   uint8  `json:"fc"`
	Unit uint8  `json:"unit"`
	TID  uint16 `json:"tid"` // TCP only
	// FC1-4: Addr, Qty. FC5/6: Addr, Value. FC15/16: Addr, Qty, Data. FC23: Addr,Qty = read; WAddr,WQty,Data = write.
	Addr  uint16 `json:"addr"`
	Qty   uint16 `json:"qty"`
	Value uint16 `json:"value"`
	WAddr uint16 `json:"waddr"`
	WQty  uint16 `json:"wqty"`
	Data  []byte `json:"data"`
}

func be(v uint16) []byte { return []byte{byte(v >> 8), byte(v)} }

// PDU lays the request PDU out as the specification's figures do. The byte
// count field is len(Data) truncated to one byte (the caller is responsible for legality).
func (r Req) PDU() []byte {
	p := []byte{r.FC}
	switch r.FC {
	case 1, 2, 3, 4:
		p = append(p, be(r.Addr)...)
		p = append(p, be(r.Qty)...)
	case 5, 6:
		p = append(p, be(r.Addr)...)
		p = append(p, be(r.Value)...)
	case 15, 16:
		p = append(p, be(r.Addr)...)
		p = append(p, be(r.Qty)...)
		p = append(p, byte(len(r.Data)))
		p = append(p, r.Data...)
	case 17:
	case 23:
		p = append(p, be(r.Addr)...)
		p = append(p, be(r.Qty)...)
		p = append(p, be(r.WAddr)...)
		p = append(p, be(r.WQty)...)
		p = append(p, byte(len(r.Data)))
		p = append(p, r.Data...)
	}
	return p
}

// Frame wraps a PDU into an ADU.
func Frame(f Framing, tid uint16, unit uint8, pdu []byte) []byte {
	if f == TCP {
		n := len(pdu) + 1
		out := []byte{byte(tid >> 8), byte(tid), 0, 0, byte(n >> 8), byte(n), unit}
		return append(out, pdu...)
	}
	out := append([]byte{unit}, pdu...)
	c := CRC(out)
	return append(out, byte(c), byte(c>>8))
}

// Encode gives the ADU for the request.
func (r Req) Encode(f Framing) []byte { return Frame(f, r.TID, r.Unit, r.PDU()) }

// Legal reports whether the request is within the specification's limits and self-consistent.
func (r Req) Legal() bool {
	switch r.FC {
	case 1, 2:
		return r.Qty >= 1 && r.Qty <= 2000
	case 3, 4:
		return r.Qty >= 1 && r.Qty <= 125
	case 5:
		return r.Value == 0x0000 || r.Value == 0xFF00
	case 6, 17:
		return true
	case 15:
		return r.Qty >= 1 && r.Qty <= 1968 && len(r.Data) == (int(r.Qty)+7)/8
	case 16:
		return r.Qty >= 1 && r.Qty <= 123 && len(r.Data) == 2*int(r.Qty)
	case 23:
		return r.Qty >= 1 && r.Qty <= 125 && r.WQty >= 1 && r.WQty <= 121 && len(r.Data) == 2*int(r.WQty)
	}
	return false
}

// QuantityLegal is the limit check alone (no byte count consistency) for the named quantity fields.
func QuantityLegal(fc uint8, qty uint16) bool {
	switch fc {
	case 1, 2:
		return qty >= 1 && qty <= 2000
	case 3, 4:
		return qty >= 1 && qty <= 125
	case 15:
		return qty >= 1 && qty <= 1968
	case 16:
		return qty >= 1 && qty <= 123
	}
	return true
}

// Unframe splits an ADU into addressing and PDU, verifying the framing rules.
func Unframe(f Framing, adu []byte) (tid uint16, unit uint8, pdu []byte, err error) {
	if f == TCP {
		if len(adu) < 8 {
			return 0, 0, nil, errors.New("tcp adu shorter than 8")
		}
		if adu[2] != 0 || adu[3] != 0 {
			return 0, 0, nil, errors.New("protocol id not 0")
		}
		n := int(adu[4])<<8 | int(adu[5])
		if n != len(adu)-6 {
			return 0, 0, nil, fmt.Errorf("length field %d != following bytes %d", n, len(adu)-6)
		}
		return uint16(adu[0])<<8 | uint16(adu[1]), adu[6], adu[7:], nil
	}
	if len(adu) < 4 {
		return 0, 0, nil, errors.New("rtu adu shorter than 4")
	}
	c := CRC(adu[:len(adu)-2])
	if adu[len(adu)-2] != byte(c) || adu[len(adu)-1] != byte(c>>8) {
		return 0, 0, nil, errors.New("crc mismatch")
	}
	return 0, adu[0], adu[1 : len(adu)-2], nil
}

func u16(b []byte) uint16 { return uint16(b[0])<<8 | uint16(b[1]) }

// DecodeReq decodes a request ADU structurally (no limit checks).
func DecodeReq(f Framing, adu []byte) (Req, error) {
	tid, unit, p, err := Unframe(f, adu)
	if err != nil {
		return Req{}, err
	}
	if len(p) < 1 {
		return Req{}, errors.New("empty pdu")
	}
	r := Req{FC: p[0], Unit: unit, TID: tid}
	b := p[1:]
	switch r.FC {
	case 1, 2, 3, 4:
		if len(b) != 4 {
			return r, errors.New("read request pdu must be 5 bytes")
		}
		r.Addr, r.Qty = u16(b), u16(b[2:])
	case 5, 6:
		if len(b) != 4 {
			return r, errors.New("write single pdu must be 5 bytes")
		}
		r.Addr, r.Value = u16(b), u16(b[2:])
	case 15, 16:
		if len(b) < 5 {
			return r, errors.New("write multiple pdu too short")
		}
		r.Addr, r.Qty = u16(b), u16(b[2:])
		if int(b[4]) != len(b)-5 {
			return r, errors.New("byte count mismatch")
		}
		r.Data = append([]byte{}, b[5:]...)
	case 17:
		if len(b) != 0 {
			return r, errors.New("fc17 pdu must be 1 byte")
		}
	case 23:
		if len(b) < 9 {
			return r, errors.New("fc23 pdu too short")
		}
		r.Addr, r.Qty, r.WAddr, r.WQty = u16(b), u16(b[2:]), u16(b[4:]), u16(b[6:])
		if int(b[8]) != len(b)-9 {
			return r, errors.New("byte count mismatch")
		}
		r.Data = append([]byte{}, b[9:]...)
	default:
		return r, fmt.Errorf("unsupported function %d", r.FC)
	}
	return r, nil
}

// Resp is a response at PDU level plus addressing.
type Resp struct {
	FC   uint8  `json:"fc"` // for exceptions: the originating function code (without the high bit)
	Unit uint8  `json:"unit"`
	TID  uint16 `json:"tid"`
	// Exception response
	Exception bool  `json:"exception,omitempty"`
	ExCode    uint8 `json:"excode,omitempty"`
	// FC1-4, 23: Data (byte count = len(Data)). FC5/6: Addr, Value. FC15/16: Addr, Qty.
	Data  []byte `json:"data,omitempty"`
	Addr  uint16 `json:"addr,omitempty"`
	Qty   uint16 `json:"qty,omitempty"`
	Value uint16 `json:"value,omitempty"`
	// FC17 (layout documented by the library: count = len(ServerID), then ServerID, run status, additional data)
	ServerID   []byte `json:"server_id,omitempty"`
	Status     uint8  `json:"status,omitempty"`
	Additional []byte `json:"additional,omitempty"`
}

// PDU of the response.
func (r Resp) PDU() []byte {
	if r.Exception {
		return []byte{r.FC | 0x80, r.ExCode}
	}
	p := []byte{r.FC}
	switch r.FC {
	case 1, 2, 3, 4, 23:
		p = append(p, byte(len(r.Data)))
		p = append(p, r.Data...)
	case 5, 6:
		p = append(p, be(r.Addr)...)
		p = append(p, be(r.Value)...)
	case 15, 16:
		p = append(p, be(r.Addr)...)
		p = append(p, be(r.Qty)...)
	case 17:
		p = append(p, byte(len(r.ServerID)))
		p = append(p, r.ServerID...)
		p = append(p, r.Status)
		p = append(p, r.Additional...)
	}
	return p
}

// Encode gives the response ADU.
func (r Resp) Encode(f Framing) []byte { return Frame(f, r.TID, r.Unit, r.PDU()) }

// DecodeResp decodes a response ADU.
func DecodeResp(f Framing, adu []byte) (Resp, error) {
	tid, unit, p, err := Unframe(f, adu)
	if err != nil {
		return Resp{}, err
	}
	if len(p) < 1 {
		return Resp{}, errors.New("empty pdu")
	}
	r := Resp{FC: p[0], Unit: unit, TID: tid}
	b := p[1:]
	if r.FC&0x80 != 0 {
		if len(b) != 1 {
			return r, errors.New("exception pdu must be 2 bytes")
		}
		r.FC &= 0x7f
		r.Exception, r.ExCode = true, b[0]
		return r, nil
	}
	switch r.FC {
	case 1, 2, 3, 4, 23:
		if len(b) < 1 || int(b[0]) != len(b)-1 {
			return r, errors.New("byte count mismatch")
		}
		r.Data = append([]byte{}, b[1:]...)
	case 5, 6:
		if len(b) != 4 {
			return r, errors.New("pdu must be 5 bytes")
		}
		r.Addr, r.Value = u16(b), u16(b[2:])
	case 15, 16:
		if len(b) != 4 {
			return r, errors.New("pdu must be 5 bytes")
		}
		r.Addr, r.Qty = u16(b), u16(b[2:])
	case 17:
		if len(b) < 1 || int(b[0]) < 1 || len(b) < 2+int(b[0]) {
			return r, errors.New("fc17 too short")
		}
		n := int(b[0])
		r.ServerID = append([]byte{}, b[1:1+n]...)
		r.Status = b[1+n]
		r.Additional = append([]byte{}, b[2+n:]...)
	default:
		return r, fmt.Errorf("unsupported function %d", r.FC)
	}
	return r, nil
}

// CoilBit is the specification's coil layout: coil i of a packed payload is bit (i mod 8) of byte (i div 8).
func CoilBit(payload []byte, i int) bool { return payload[i/8]&(1<<uint(i%8)) != 0 }

// PackCoils packs coils LSB first, padding the last byte with zeros.
func PackCoils(coils []bool) []byte {
	out := make([]byte, (len(coils)+7)/8)
	for i, c := range coils {
		if c {
			out[i/8] |= 1 << uint(i%8)
		}
	}
	return out
}

// SelfTest checks the model against the worked examples printed in the specification.
func SelfTest() error {
	eq := func(a, b []byte) bool {
		if len(a) != len(b) {
			return false
		}
		for i := range a {
			if a[i] != b[i] {
				return false
			}
		}
		return true
	}
	// Modbus over serial line spec / common reference vector: 01 04 02 FF FF -> B8 80
	if c := CRC([]byte{0x01, 0x04, 0x02, 0xFF, 0xFF}); c != 0x80B8 {
		return fmt.Errorf("crc vector 1: %04x", c)
	}
	// 11 03 00 6B 00 03 -> 76 87 (classic simplymodbus example)
	if c := CRC([]byte{0x11, 0x03, 0x00, 0x6B, 0x00, 0x03}); c != 0x8776 {
		return fmt.Errorf("crc vector 2: %04x", c)
	}
	if c := CRC(nil); c != 0xFFFF {
		return fmt.Errorf("crc empty: %04x", c)
	}
	// "123456789" -> 0x4B37 (CRC-16/MODBUS check value)
	if c := CRC([]byte("123456789")); c != 0x4B37 {
		return fmt.Errorf("crc check value: %04x", c)
	}
	// spec 6.1 Read Coils example: request 01 00 13 00 13 ; response 01 03 CD 6B 05
	rq := Req{FC: 1, Addr: 0x13, Qty: 0x13}
	if !eq(rq.PDU(), []byte{0x01, 0x00, 0x13, 0x00, 0x13}) {
		return errors.New("fc1 request example")
	}
	// spec: status of outputs 27-20 is CD = 1100 1101: output 27 MSB, output 20 LSB; 20 is first coil (address 0x13)
	pl := []byte{0xCD, 0x6B, 0x05}
	want20to27 := []bool{true, false, true, true, false, false, true, true}
	for i, w := range want20to27 {
		if CoilBit(pl, i) != w {
			return errors.New("coil layout example")
		}
	}
	// spec 6.11 Write Multiple Coils example: 0F 00 13 00 0A 02 CD 01
	wc := Req{FC: 15, Addr: 0x13, Qty: 10, Data: PackCoils([]bool{true, false, true, true, false, false, true, true, true, false})}
	if !eq(wc.PDU(), []byte{0x0F, 0x00, 0x13, 0x00, 0x0A, 0x02, 0xCD, 0x01}) {
		return fmt.Errorf("fc15 request example % x", wc.PDU())
	}
	// spec 6.12 Write Multiple registers example: 10 00 01 00 02 04 00 0A 01 02
	wr := Req{FC: 16, Addr: 1, Qty: 2, Data: []byte{0x00, 0x0A, 0x01, 0x02}}
	if !eq(wr.PDU(), []byte{0x10, 0x00, 0x01, 0x00, 0x02, 0x04, 0x00, 0x0A, 0x01, 0x02}) {
		return errors.New("fc16 request example")
	}
	// spec 6.17 Read/Write Multiple registers example: 17 00 03 00 06 00 0E 00 03 06 00 FF 00 FF 00 FF
	rw := Req{FC: 23, Addr: 3, Qty: 6, WAddr: 14, WQty: 3, Data: []byte{0, 0xFF, 0, 0xFF, 0, 0xFF}}
	if !eq(rw.PDU(), []byte{0x17, 0x00, 0x03, 0x00, 0x06, 0x00, 0x0E, 0x00, 0x03, 0x06, 0x00, 0xFF, 0x00, 0xFF, 0x00, 0xFF}) {
		return errors.New("fc23 request example")
	}
	// MBAP example from the TCP guide style: tid 0x1501, unit 0xFF, read 1 register at 4
	fr := Frame(TCP, 0x1501, 0xFF, []byte{0x03, 0x00, 0x04, 0x00, 0x01})
	if !eq(fr, []byte{0x15, 0x01, 0x00, 0x00, 0x00, 0x06, 0xFF, 0x03, 0x00, 0x04, 0x00, 0x01}) {
		return errors.New("mbap example")
	}
	// round trips of own encoder/decoder
	for _, f := range []Framing{TCP, RTU} {
		for _, q := range []Req{rq, wc, wr, rw, {FC: 5, Addr: 0xAC, Value: 0xFF00}, {FC: 6, Addr: 1, Value: 3}, {FC: 17, Unit: 9}} {
			q.TID = 77
			d, err := DecodeReq(f, q.Encode(f))
			if err != nil {
				return fmt.Errorf("self round trip fc%d: %v", q.FC, err)
			}
			if f == RTU {
				d.TID = 77
			}
			if !eq(d.Encode(f), q.Encode(f)) {
				return fmt.Errorf("self round trip fc%d differs", q.FC)
			}
		}
	}
	return nil
}

// Package fieldgen generates builder field lists (shared by the C05 and C06 checks) and the reference view of a field.
package fieldgen

import (
	"fmt"
	"math/rand"

	modbus "github.com/aldas/go-modbus-client"
	"github.com/aldas/go-modbus-client/packet"
	"verif/regref"
)

// Servers contains hostile pairs: names that are prefixes of one another, contain the separators a grouping key may use, or differ only in scheme.
var Servers = []string{"127.0.0.1:502", "127.0.0.1:5021", "plc", "plc_1", "plc_1_true", "tcp://plc:502", "udp://plc:502", "10.0.0.1:502_1"}

// Units that make concatenated keys ambiguous together with Servers (502+11 vs 5021+1, plc_1 + 1 vs plc + 1_1 ...).
var Units = []uint8{0, 1, 11, 2, 21, 255}

// RegSize is the number of registers (or coils) a field occupies, from the documentation of the field types.
func RegSize(f modbus.Field) int {
	switch f.Type {
	case modbus.FieldTypeUint32, modbus.FieldTypeInt32, modbus.FieldTypeFloat32:
		return 2
	case modbus.FieldTypeUint64, modbus.FieldTypeInt64, modbus.FieldTypeFloat64:
		return 4
	case modbus.FieldTypeString:
		return (int(f.Length) + 1) / 2
	}
	return 1
}

// Valid mirrors the documented validity rules of a field definition.
func Valid(f modbus.Field) bool {
	if f.ServerAddress == "" || f.Type == 0 || f.Type > 14 || f.Bit > 15 {
		return false
	}
	if f.Type == modbus.FieldTypeString && f.Length == 0 {
		return false
	}
	return true
}

// IsCoil kind.
func IsCoil(f modbus.Field) bool { return f.Type == modbus.FieldTypeCoil }

var regTypes = []modbus.FieldType{modbus.FieldTypeBit, modbus.FieldTypeByte, modbus.FieldTypeUint8, modbus.FieldTypeInt8, modbus.FieldTypeUint16, modbus.FieldTypeInt16,
	modbus.FieldTypeUint32, modbus.FieldTypeInt32, modbus.FieldTypeUint64, modbus.FieldTypeInt64, modbus.FieldTypeFloat32, modbus.FieldTypeFloat64, modbus.FieldTypeString}

// Rand draws one field; typeSel: 0 = register types, 1 = coil, 2 = mixed.
func Rand(rng *rand.Rand, name string, server string, unit uint8, addr int, typeSel int) modbus.Field {
	f := modbus.Field{Name: name, ServerAddress: server, UnitID: unit, Address: uint16(addr)}
	coil := typeSel == 1 || (typeSel == 2 && rng.Intn(4) == 0)
	if coil {
		f.Type = modbus.FieldTypeCoil
		return f
	}
	f.Type = regTypes[rng.Intn(len(regTypes))]
	f.Bit = uint8(rng.Intn(16))
	f.FromHighByte = rng.Intn(2) == 0
	f.ByteOrder = packet.ByteOrder(regref.Orders[rng.Intn(len(regref.Orders))])
	if f.Type == modbus.FieldTypeString {
		switch rng.Intn(5) {
		case 0:
			f.Length = uint8(1 + rng.Intn(8))
		case 1:
			f.Length = []uint8{249, 250, 251, 254, 255}[rng.Intn(5)]
		case 2:
			f.Length = uint8(61 + rng.Intn(190)) // 61..250 bytes: long, yet at most 125 registers
		default:
			f.Length = uint8(1 + rng.Intn(60))
		}
	} else if rng.Intn(6) == 0 {
		// Length only means something for strings; a definition built as a struct literal or read from a config may carry
		// one anyway (a valid definition: Validate accepts it) and it must not change anything
		f.Length = []uint8{1, 2, 3, 8, 20, 255}[rng.Intn(6)]
	}
	return f
}

// NewBuilder creates the request builder the way callers do: with the zero defaults or with defaults of its own. Every
// generated field names its server and unit explicitly (unit 0 included), so the defaults must not matter.
func NewBuilder(sel uint64) *modbus.Builder {
	if sel%3 == 1 {
		return modbus.NewRequestBuilder("default-device:502", 9)
	}
	return modbus.NewRequestBuilder("", 0)
}

// Invalidate turns f into an invalid definition.
func Invalidate(rng *rand.Rand, f modbus.Field) modbus.Field {
	switch rng.Intn(5) {
	case 0:
		f.Type = 0
	case 1:
		f.Type = 15 + modbus.FieldType(rng.Intn(200))
	case 2:
		f.Bit = uint8(16 + rng.Intn(200))
	case 3:
		f.ServerAddress = ""
	default:
		f.Type, f.Length = modbus.FieldTypeString, 0
	}
	return f
}

// List draws a field list of n fields: clustered / gapped / edge addresses, duplicates, overlaps, several servers and units.
func List(rng *rand.Rand, n int, typeSel int, nServers, nUnits int, limit int) modbus.Fields {
	servers := make([]string, nServers)
	off := rng.Intn(len(Servers))
	for i := range servers {
		servers[i] = Servers[(off+i)%len(Servers)]
	}
	units := make([]uint8, nUnits)
	uoff := rng.Intn(len(Units))
	for i := range units {
		units[i] = Units[(uoff+i)%len(Units)]
	}
	bases := []int{0, 1, 2, limit - 3, limit, 2 * limit, 1000, 32760, 65536 - limit - 2, 65536 - limit, 65500, 65530}
	base := bases[rng.Intn(len(bases))]
	spread := []int{4, limit - 1, limit, limit + 1, 3 * limit, 10}[rng.Intn(6)]
	out := make(modbus.Fields, 0, n)
	for i := 0; i < n; i++ {
		var addr int
		switch rng.Intn(8) {
		case 0:
			addr = rng.Intn(65536)
		case 1:
			addr = []int{0, 1, 2, 3, 4, 65530, 65531, 65532, 65533, 65534, 65535}[rng.Intn(11)]
		case 2:
			if len(out) > 0 {
				addr = int(out[rng.Intn(len(out))].Address) // duplicate address
				break
			}
			fallthrough
		default:
			addr = base + rng.Intn(spread+1)
		}
		if addr > 65535 {
			addr = 65535
		}
		if addr < 0 {
			addr = 0
		}
		f := Rand(rng, fmt.Sprintf("f%d", i), servers[rng.Intn(nServers)], units[rng.Intn(nUnits)], addr, typeSel)
		if len(out) > 0 && rng.Intn(16) == 0 {
			// the very same definition once more (name included): a multiset, every occurrence is a field of its own
			out = append(out, out[rng.Intn(len(out))])
			continue
		}
		if len(out) > 0 && rng.Intn(8) == 0 {
			// a near twin of an earlier field: same target and address, one attribute different
			f = out[rng.Intn(len(out))]
			f.Name = fmt.Sprintf("f%d", i)
			switch {
			case f.Type == modbus.FieldTypeString && f.Length > 1 && f.Length < 255:
				f.Length += uint8(2*rng.Intn(2)) - 1
			case f.Type == modbus.FieldTypeBit:
				f.Bit = (f.Bit + 1 + uint8(rng.Intn(15))) % 16
			case f.Type == modbus.FieldTypeByte || f.Type == modbus.FieldTypeUint8 || f.Type == modbus.FieldTypeInt8:
				f.FromHighByte = !f.FromHighByte
			case f.Type != modbus.FieldTypeCoil:
				f.ByteOrder = packet.ByteOrder(regref.Orders[rng.Intn(len(regref.Orders))])
			}
		}
		out = append(out, f)
	}
	return out
}

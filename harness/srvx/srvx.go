// Package srvx holds what the server checks (C15-C17) share: a handler backed by the simulated device,
// an assembler feeder, an in-memory listener and recording connections.
package srvx

import (
	"bytes"
	"context"
	"errors"
	"fmt"
	"net"
	"sync"
	"sync/atomic"
	"time"

	"github.com/aldas/go-modbus-client/packet"
	"github.com/aldas/go-modbus-client/server"
	"verif/mon"
	"verif/simdev"
	"verif/specref"
)

// RawResp is a packet.Response whose bytes were produced by the reference encoder.
type RawResp struct {
	FC uint8
	B  []byte
}

func (r RawResp) FunctionCode() uint8 { return r.FC }
func (r RawResp) Bytes() []byte       { return r.B }

// HandlerFunc adapts a function to server.ModbusHandler.
type HandlerFunc func(ctx context.Context, req packet.Request) (packet.Response, error)

// Handle implements server.ModbusHandler.
func (f HandlerFunc) Handle(ctx context.Context, req packet.Request) (packet.Response, error) {
	return f(ctx, req)
}

// DevHandler answers every request from the simulated device (request re-encoded by the library, decoded by the reference decoder).
func DevHandler(dev *simdev.Device, before func(q specref.Req)) server.ModbusHandler {
	return HandlerFunc(func(ctx context.Context, req packet.Request) (packet.Response, error) {
		q, err := specref.DecodeReq(specref.TCP, req.Bytes())
		if err != nil {
			return nil, fmt.Errorf("verif handler: request not decodable: %w", err)
		}
		if before != nil {
			before(q)
		}
		p := dev.Handle(q)
		return RawResp{FC: q.FC, B: p.Encode(specref.TCP)}, nil
	})
}

// Feed pushes segments through a fresh ModbusTCPAssembler and returns what each feed returned.
func Feed(h server.ModbusHandler, segs [][]byte) (outs [][]byte, closes []bool, panicTxt string) {
	return FeedPaused(h, segs, -1, 0)
}

// FeedPaused is Feed with a pause of d before segment number pauseBefore is fed (a client that hesitates mid-stream).
func FeedPaused(h server.ModbusHandler, segs [][]byte, pauseBefore int, d time.Duration) (outs [][]byte, closes []bool, panicTxt string) {
	a := &server.ModbusTCPAssembler{Handler: h}
	for i, s := range segs {
		if i == pauseBefore && d > 0 {
			time.Sleep(d)
		}
		var out []byte
		var cl bool
		in := make([]byte, len(s)) // exact capacity: the assembler must not depend on spare bytes
		copy(in, s)
		if p, txt := mon.Catch(func() { out, cl = a.ReceiveRead(context.Background(), in, len(in)) }); p {
			return outs, closes, txt
		}
		outs = append(outs, append([]byte(nil), out...))
		closes = append(closes, cl)
	}
	return outs, closes, ""
}

// Split cuts a stream at the given sorted offsets.
func Split(stream []byte, cuts []int) [][]byte {
	var segs [][]byte
	prev := 0
	for _, c := range cuts {
		if c <= prev || c >= len(stream) {
			continue
		}
		segs = append(segs, stream[prev:c])
		prev = c
	}
	return append(segs, stream[prev:])
}

// ---- in-memory listener ----

// Stamp is the logical clock shared by all recorders of one scenario.
type Stamp struct{ n atomic.Int64 }

// Tick returns the next stamp.
func (s *Stamp) Tick() int64 { return s.n.Add(1) }

// ConnEvent is one server-side call on a connection.
type ConnEvent struct {
	Seq int64
	Op  string // read | write | close
	N   int
	Err bool
}

// RecConn wraps the server side of a pipe and records calls.
type RecConn struct {
	net.Conn
	ID int
	// AcceptSeq is the stamp taken when the listener's Accept returned this connection.
	AcceptSeq atomic.Int64
	remote    net.Addr
	clk       *Stamp
	mu        sync.Mutex
	Events    []ConnEvent
	Closes    atomic.Int64
	// Yield is called (if set) before Read returns data, to widen interleavings.
	Yield func(point string)
	// DataWithDeadline: every second Read that delivers bytes reports them together with the deadline error (a
	// fill-the-buffer-until-the-deadline transport; io.Reader allows n > 0 with a non-nil error).
	DataWithDeadline bool
	dwd              atomic.Int64
}

type memAddr string

func (a memAddr) Network() string { return "mem" }
func (a memAddr) String() string  { return string(a) }

func (c *RecConn) log(op string, n int, err error) {
	c.mu.Lock()
	c.Events = append(c.Events, ConnEvent{Seq: c.clk.Tick(), Op: op, N: n, Err: err != nil})
	c.mu.Unlock()
}

// EventsCopy returns the events recorded so far.
func (c *RecConn) EventsCopy() []ConnEvent {
	c.mu.Lock()
	defer c.mu.Unlock()
	return append([]ConnEvent(nil), c.Events...)
}

func (c *RecConn) Read(p []byte) (int, error) {
	n, err := c.Conn.Read(p)
	if c.DataWithDeadline && n > 0 && err == nil && c.dwd.Add(1)%2 == 0 {
		err = errDeadline
	}
	if n > 0 || (err != nil && !errors.Is(err, errDeadline)) {
		c.log("read", n, err)
	}
	return n, err
}

var errDeadline = osDeadline()

func (c *RecConn) Write(p []byte) (int, error) {
	if y := c.Yield; y != nil {
		y("conn.write") // transport-level delay before the reply leaves (widens handler-returned / reply-written window)
	}
	n, err := c.Conn.Write(p)
	c.log("write", n, err)
	return n, err
}

func (c *RecConn) Close() error {
	k := c.Closes.Add(1)
	c.log("close", 0, nil)
	err := c.Conn.Close()
	if k > 1 && err == nil {
		// like a socket: closing a connection that is already closed is an error (net.Pipe says nothing)
		return &net.OpError{Op: "close", Net: "mem", Err: net.ErrClosed}
	}
	return err
}

// RemoteAddr is unique per connection.
func (c *RecConn) RemoteAddr() net.Addr { return c.remote }

// FirstClose returns the stamp of the first server-side Close (0 if none).
func (c *RecConn) FirstClose() int64 {
	c.mu.Lock()
	defer c.mu.Unlock()
	for _, e := range c.Events {
		if e.Op == "close" {
			return e.Seq
		}
	}
	return 0
}

// ServerCloses reports how often the server closed this connection.
func (c *RecConn) ServerCloses() int { return int(c.Closes.Load()) }

// MemListener is a net.Listener whose connections are net.Pipe pairs.
type MemListener struct {
	Clk   *Stamp
	ch    chan net.Conn
	done  chan struct{}
	once  sync.Once
	mu    sync.Mutex
	Conns []*RecConn
	// ConnYield, when set before Dial, is installed as Yield on every new connection.
	ConnYield func(point string)
	// DataWithDeadline, when set before Dial, is copied to every new connection.
	DataWithDeadline bool
	Closes           atomic.Int64
	Accepts          atomic.Int64
}

// NewMemListener creates a listener.
func NewMemListener() *MemListener {
	return &MemListener{Clk: &Stamp{}, ch: make(chan net.Conn), done: make(chan struct{})}
}

// Accept implements net.Listener.
func (l *MemListener) Accept() (net.Conn, error) {
	select {
	case c := <-l.ch:
		l.Accepts.Add(1)
		if rc, ok := c.(*RecConn); ok {
			rc.AcceptSeq.Store(l.Clk.Tick())
		}
		return c, nil
	case <-l.done:
		return nil, errors.New("verif: listener closed")
	}
}

// Close implements net.Listener.
func (l *MemListener) Close() error {
	l.Closes.Add(1)
	l.once.Do(func() { close(l.done) })
	return nil
}

// Closed reports whether Close was called.
func (l *MemListener) Closed() bool { return l.Closes.Load() > 0 }

// Addr implements net.Listener.
func (l *MemListener) Addr() net.Addr { return memAddr("mem-listener") }

// Dial creates a connection; it returns the client end and the recorder of the server end, or an error when the
// listener is closed / nobody accepts within the timeout.
func (l *MemListener) Dial(timeout time.Duration) (net.Conn, *RecConn, error) {
	cli, srv := net.Pipe()
	l.mu.Lock()
	id := len(l.Conns)
	rc := &RecConn{Conn: srv, ID: id, remote: memAddr(fmt.Sprintf("client-%d", id)), clk: l.Clk, Yield: l.ConnYield, DataWithDeadline: l.DataWithDeadline}
	l.Conns = append(l.Conns, rc)
	l.mu.Unlock()
	select {
	case l.ch <- rc:
		return cli, rc, nil
	case <-l.done:
		cli.Close()
		srv.Close()
		return nil, rc, errors.New("verif: connection refused (listener closed)")
	case <-time.After(timeout):
		cli.Close()
		srv.Close()
		return nil, rc, errors.New("verif: dial timeout (nobody accepts)")
	}
}

// ReadN reads exactly n bytes from conn or returns what it got when the deadline passes.
func ReadN(conn net.Conn, n int, d time.Duration) ([]byte, error) {
	buf := make([]byte, n)
	got := 0
	_ = conn.SetReadDeadline(time.Now().Add(d))
	for got < n {
		k, err := conn.Read(buf[got:])
		got += k
		if err != nil {
			return buf[:got], err
		}
	}
	return buf[:got], nil
}

// Drain reads whatever arrives within d (used to detect surplus bytes).
func Drain(conn net.Conn, d time.Duration) []byte {
	var out []byte
	buf := make([]byte, 512)
	_ = conn.SetReadDeadline(time.Now().Add(d))
	for {
		k, err := conn.Read(buf)
		out = append(out, buf[:k]...)
		if err != nil {
			return out
		}
	}
}

// CheckAssembler wraps a PacketAssembler (the way an application plugs in its own through Server.AssemblerCreatorFunc)
// and checks what the server hands to it: bytesRead equals len(received), the context is alive, and - through the
// optional RawReadTracer interface - every traced read has n == len(data) and is the data handed to ReceiveRead next.
type CheckAssembler struct {
	Inner server.PacketAssembler
	mu    sync.Mutex
	last  []byte
	Bad   []string
}

func (a *CheckAssembler) note(s string) {
	a.mu.Lock()
	if len(a.Bad) < 5 {
		a.Bad = append(a.Bad, s)
	}
	a.mu.Unlock()
}

// Problems returns what was recorded.
func (a *CheckAssembler) Problems() []string {
	a.mu.Lock()
	defer a.mu.Unlock()
	return append([]string(nil), a.Bad...)
}

// Read implements server.RawReadTracer.
func (a *CheckAssembler) Read(data []byte, n int, err error) {
	if n != len(data) {
		a.note(fmt.Sprintf("raw-read trace: n=%d but %d bytes handed over", n, len(data)))
	}
	a.mu.Lock()
	a.last = append(a.last[:0], data...)
	a.mu.Unlock()
}

// ReceiveRead implements server.PacketAssembler.
func (a *CheckAssembler) ReceiveRead(ctx context.Context, received []byte, bytesRead int) ([]byte, bool) {
	if bytesRead != len(received) {
		a.note(fmt.Sprintf("ReceiveRead: bytesRead=%d but len(received)=%d (cap %d)", bytesRead, len(received), cap(received)))
	}
	if ctx.Err() != nil {
		a.note("ReceiveRead: context already ended: " + ctx.Err().Error())
	}
	a.mu.Lock()
	same := bytes.Equal(a.last, received)
	a.mu.Unlock()
	if !same {
		a.note(fmt.Sprintf("ReceiveRead got % x, the read traced just before was % x", received, a.last))
	}
	return a.Inner.ReceiveRead(ctx, received, bytesRead)
}

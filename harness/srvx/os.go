package srvx

import "os"

func osDeadline() error { return os.ErrDeadlineExceeded }

#!/bin/bash
# Pre-builds the worker binaries (plain and -race) from files on disk only.
set -e
cd "$(dirname "$0")"
export GOFLAGS=-mod=mod GOPROXY=off GOSUMDB=off GOTOOLCHAIN=local
mkdir -p .build evidence
(cd harness && go build -tags verif -o ../.build/worker ./cmd/worker)
(cd harness && go build -tags verif -race -o ../.build/worker-race ./cmd/worker)
echo setup ok
